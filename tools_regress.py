#!/usr/bin/env python3
"""Detection of the REAL defects that were repaired in /repo: for every `fixed` entry of known_findings.json the fix
commit is reverted in a scratch worktree of /repo's HEAD (never in /repo) and the quick check of the property is run
against that tree (VERIF_REPO).  The check must report a violation; up to three of its replay files are kept under
regressions/<property>/ as the replayable artefact of that defect, and regressions/index.json records what was run.

   tools_regress.py collect [commit ...]    revert, check, keep replay files and the index
   tools_regress.py replay                  replay every kept file against /repo's current tree: none may fail
   tools_regress.py table                   markdown table from regressions/index.json"""
import json
import os
import shutil
import subprocess
import sys
import tempfile

HERE = os.path.dirname(os.path.abspath(__file__))
RDIR = os.path.join(HERE, "regressions")


def git(wt, *a, check=True):
    return subprocess.run(["git", "-C", wt] + list(a), capture_output=True, text=True, check=check)


def fix_chain():
    out = git("/repo", "log", "--format=%h %s", "--reverse").stdout.splitlines()
    return [l.split()[0] for l in out if l.split(" ", 1)[1].startswith("fix:")]


def files_of(commit):
    return set(git("/repo", "show", "--name-only", "--format=", commit).stdout.split())


def collect(only=None):
    kf = json.load(open(os.path.join(HERE, "known_findings.json")))["findings"]
    by_commit = {}
    for f in kf:
        if f.get("status") == "fixed":
            by_commit.setdefault(f["commit"], []).append(f["property"])
    chain = fix_chain()
    index_path = os.path.join(RDIR, "index.json")
    index = json.load(open(index_path)) if os.path.exists(index_path) else {}
    for commit in chain:
        short = commit[:7]
        props = sorted(set(by_commit.get(short, [])))
        if not props or (only and short not in only):
            continue
        tmp = tempfile.mkdtemp(prefix="regress_")
        wt = os.path.join(tmp, "wt")
        try:
            git("/repo", "worktree", "add", "-q", "--detach", wt, "HEAD")
            reverted = [short]
            r = git(wt, "revert", "--no-commit", commit, check=False)
            if r.returncode != 0:
                # a later fix touches the same lines: revert the later fixes of the same files too, newest first
                git(wt, "revert", "--abort", check=False)
                git(wt, "reset", "--hard", "-q", "HEAD")
                later = [c for c in chain[chain.index(commit) + 1:] if files_of(c) & files_of(commit)]
                reverted = [c[:7] for c in reversed(later)] + [short]
                for c in reversed(later):
                    git(wt, "revert", "--no-commit", c)
                git(wt, "revert", "--no-commit", commit)
            for pid in props:
                rep = os.path.join(tmp, "replays")
                env = dict(os.environ, VERIF_REPO=wt, VERIF_EVIDENCE_DIR=os.path.join(tmp, "evidence"), VERIF_REPLAY_DIR=rep)
                p = subprocess.run([os.path.join(HERE, "check"), pid, "--tier", "quick"], cwd=HERE, env=env, capture_output=True, text=True)
                clauses = sorted({l.split("clause=")[1].split(" ")[0] for l in p.stdout.splitlines() if l.startswith("  clause=")})
                kept = []
                src = os.path.join(rep, pid)
                if os.path.isdir(src):
                    os.makedirs(os.path.join(RDIR, pid), exist_ok=True)
                    per_clause = {}
                    for fn in sorted(os.listdir(src)):
                        cl = fn.rsplit("_", 1)[0]
                        per_clause[cl] = per_clause.get(cl, 0) + 1
                        if per_clause[cl] > 1 or len(kept) >= 3:
                            continue
                        d = json.load(open(os.path.join(src, fn)))
                        d["how"] = "./check %s --replay regressions/%s/%s_%s" % (pid, pid, short, fn)
                        d["from"] = "quick check of %s on /repo HEAD with fix %s reverted" % (pid, "+".join(reverted))
                        json.dump(d, open(os.path.join(RDIR, pid, "%s_%s" % (short, fn)), "w"), indent=1, default=str)
                        kept.append("%s/%s_%s" % (pid, short, fn))
                index["%s:%s" % (short, pid)] = {"commit": short, "property": pid, "reverted": reverted, "check_exit": p.returncode,
                                                 "clauses": clauses, "replays": kept,
                                                 "subject": git("/repo", "log", "-1", "--format=%s", commit).stdout.strip()}
                print(short, pid, "exit", p.returncode, clauses, flush=True)
                if p.returncode not in (0, 1):
                    print(p.stdout[-1500:], p.stderr[-800:])
        finally:
            subprocess.run(["git", "-C", "/repo", "worktree", "remove", "--force", wt], capture_output=True)
            shutil.rmtree(tmp, ignore_errors=True)
            subprocess.run(["git", "-C", "/repo", "worktree", "prune"])
        os.makedirs(RDIR, exist_ok=True)
        json.dump(index, open(index_path, "w"), indent=1, sort_keys=True)


def replay():
    bad = 0
    n = 0
    for pid in sorted(os.listdir(RDIR)):
        d = os.path.join(RDIR, pid)
        if not os.path.isdir(d):
            continue
        for fn in sorted(os.listdir(d)):
            n += 1
            p = subprocess.run([os.path.join(HERE, "check"), pid, "--replay", os.path.join(d, fn)], cwd=HERE, capture_output=True, text=True,
                               env=dict(os.environ, VERIF_REPLAY_STRICT="1"))   # only the recorded clause; listed open findings are not regressions
            print(pid, fn, "exit", p.returncode, flush=True)
            if p.returncode != 0:
                bad += 1
                print(p.stdout[-600:])
    print("%d replays, %d failing" % (n, bad))
    return 1 if bad else 0


def table():
    index = json.load(open(os.path.join(RDIR, "index.json")))
    print("| fix reverted | property | quick check | clauses reported | replay files kept |")
    print("|---|---|---|---|---|")
    for k, e in sorted(index.items(), key=lambda kv: (kv[1]["property"], kv[0])):
        print("| %s %s | %s | %s | %s | %s |" % ("+".join(e["reverted"]), e["subject"][5:70], e["property"],
              {1: "VIOLATION"}.get(e["check_exit"], "exit %s" % e["check_exit"]), ", ".join(e["clauses"][:5]), len(e["replays"])))


if __name__ == "__main__":
    if sys.argv[1] == "collect":
        collect(set(a[:7] for a in sys.argv[2:]) or None)
    elif sys.argv[1] == "replay":
        sys.exit(replay())
    elif sys.argv[1] == "table":
        table()
