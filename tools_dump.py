#!/usr/bin/env python3
"""Prints the distinct violations stored in the newest pipeline cache file (helper for collecting explicit finding lists)."""
import glob, json, os, sys
from collections import Counter
files = sorted(glob.glob(os.path.join(os.path.dirname(os.path.abspath(__file__)), ".cache", "pipeline_*.json")), key=os.path.getmtime)
d = json.load(open(files[-1]))
print("file", files[-1], "jobs", d["n_jobs"], "wall", d.get("wall_s"))
for p, vs in d["violations"].items():
    print(p, dict(Counter(v["clause"] for v in vs)))
for p in sys.argv[1:]:
    for v in d["violations"][p]:
        print(json.dumps({"p": p, "clause": v["clause"], "key": v["key"], "detail": v["detail"][:240]}))
print(Counter(s.get("branch") for s in d["stats"]), "failed", sum(1 for s in d["stats"] if s.get("failed")), "harness", sum(1 for s in d["stats"] if s.get("harness_error")))
