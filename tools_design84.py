"""Regenerates DESIGN.md section 8.4 (narrative + table from seeded/*/meta.json). Run by hand after tools_seeded.py recheck."""
import json,glob,subprocess
s=open('/verif/DESIGN.md').read()
i=s.index('### 8.4 Which check catches which seeded change')
j=s.index('### 8.5 Detection of the real defects')
t=subprocess.run(['/venv/bin/python','/verif/tools_seeded.py','table','--md'],capture_output=True,text=True,cwd='/verif').stdout
metas=[json.load(open(f)) for f in sorted(glob.glob('/verif/seeded/*/meta.json'))]
n=len(metas)
def last_exit(m):
    # the latest evaluation against the quick check: the final detection run where there is one, otherwise the confirmation run
    # (waves 8 and 9: re-run only where the check changed after the confirmation)
    if 'recheck' in m:
        return m['recheck']['exit']
    return m.get('ran',{}).get('check_exit')
rechecked=[m for m in metas if last_exit(m) is not None]
ok=[m for m in rechecked if last_exit(m)==1]
bad=[m['id'] for m in rechecked if last_exit(m)!=1]
cross=[m for m in metas if 'cross' in m]
new='''### 8.4 Which check catches which seeded change
%d deliberately property-breaking changes (six per property, nine for the eleven properties whose checks do not need the pipeline exploration) were written by independent sub-agents that were given
only the property text and a scratch worktree of the repository (from the second wave on also a one-line description
of the mechanisms already used, to avoid duplicates; waves 3-9 were asked for changes that manifest only under narrow
conditions, on rarely reached paths, or for inputs that a checker with small menus of typical values would not try).
Each was confirmed by me in a fresh worktree before being kept under `seeded/<id>/` (`patch.diff`, `demo.py`,
`meta.json`): the demonstration exits 0 on the pristine tree and non-zero with the change, the unedited repository suite
still passes with the change (248 passed; a first attempt that hit the suite's own random flake in
`tests/test_methane_scp.py` was repeated and is recorded), and the property's *quick* check was then run against the
changed tree (`tools_seeded.py confirm`, `VERIF_REPO`).

**Latest detection run** (`tools_seeded.py recheck` for waves 1-7 and for every change of waves 8-9 whose check was strengthened after its
confirmation; the confirmation run itself for the others, whose checks have only grown since):
%d of %d re-evaluated changes are reported (exit 1 with a VIOLATION line)%s.

**45 of the 141 were missed at first** (41 silently, three as a harness error, one by a check that deliberately left the clause
to a sister property); in every case the oracle was right and the *driver* could not produce the behaviour, or a finding
was identified too broadly. What was changed, by wave:

* wave 1 (18): C13-a (harness deep-copied the options it should have handed over).
* wave 2 (18): C14-b (replay ignored one clause; no shared-dictionary history), C15-b (no failing country in the stand-in's answers).
* wave 3 (18, narrow conditions): C03-c (swallowed by the mechanism-wide known finding -> explicit case lists), C05-c (cap changed
  inside the programme -> solution judged against the herds), C08-c (left to C09 by design -> C08 judges the series too),
  C10-c (no histories of settings), C11-c (no conversion with different fat/protein targets), C12-c (no instance with an
  industrial-food surplus and biofuel above feed -> tiny-instance product), C16-c (no quick run on the abandoned-round-2
  path -> rare-path representatives).
* wave 4 (18, narrow conditions and rare paths): C06-d (converse transfer clause), C08-d (option-level scaling through the real
  dispatcher), C14-d (no two runs of one country differing in one option family -> deviation histories); C11-d and C15-d
  would have been missed by the earlier drivers and were pre-empted on reading their descriptions (numpy-integer index;
  the same list object passed twice).
* wave 5 (18): C04-e (percent series of four foods only; no seaweed-rich country in the deviation layer -> all foods, class-covering
  countries), C05-e (met by chance, reported as a harness error -> chained deviation layer with prefix replay), C10-e (whole-number
  populations only), C11-e (no two seed families sharing the calorie label), C12-e (every solve on a fresh copy -> identity
  perturbation), C13-e (head-count overrides one at a time -> ordered pairs), C14-e (no rare-path run in the pool); C18-e pre-empted
  (thresholds that are not a whole number of percent).
* wave 6 (11, the properties whose checks do not need the pipeline exploration): C09-f (greenhouse share always passed as float64 ->
  argument types), C10-f (every source written through the constructor -> derived totals and months), C11-f (constructor labels with the
  suffix on all or none -> all 8 mixtures), C12-f (no biofuel charge below the feed side's caps), C13-f (override observed at one herd
  evaluation -> every evaluation of a complete run), C15-f (no list naming a country twice); C14-f pre-empted (custom country-table
  parameters in the deviation histories).
* wave 7 (11, same properties): C07-g (reference read the requirement back from the species' own method), C08-g (every execution from a
  fresh option dictionary), C10-g (one ordinary value triple, flags on -> tiny and zero-calorie quantities under all flag settings),
  C11-g (no seed family only partly a ratio), C13-g (numeric overrides one at a time -> pairs), C15-g (runner flags fixed -> one real run
  that saves the per-country tables).
* wave 8 (18, all properties; asked for a specific sequence, state, input or two cooperating sites): C07-h (every supply a float64
  array -> three numeric representations), C09-h (a fresh crop object per call -> call sequences on one object), C10-h (float64
  sources only -> six numeric representations), C11-h (label getters only reached inside operations that build a fresh result; no
  mixed-shape comparison -> queries, mixed pairs, elementwise replacement), C12-h (the two meat inputs always moved together -> each
  alone), C15-h (no population override -> weights from the modelled population), C16-h (single deviations taken from the catastrophe
  presets only, so `stored_food=zero` never met a kept stock reserve in the quick tier -> baseline-family deviation layer), C18-h
  (the model's own post-condition assert escaped the helper product as a harness error -> reported as the violation it is);
  C02-h (two feed-round calls on one `Optimizer` object) and C04-h (a run title containing a full stop) would have been missed and were
  pre-empted on reading their descriptions (call histories on one object; title alphabet). Caught as they stood: C01-h, C03-h, C05-h,
  C06-h, C08-h, C13-h, C14-h, C17-h.
* wave 9 (11, the non-pipeline properties again, told which mechanisms wave 8 had used): C12-i (a food's waste set to exactly 0 falls
  back to the crop figure: equal to the unperturbed value, lower than at half the waste -> boundary values and the chain w -> w/2 -> 0),
  C10-i (found, but the stored replay did not re-judge the shape clause, so it surfaced as a harness error -> replay covers every clause);
  C11-i (multiplier tables remembered per (population, kcal) only) and C14-i (accumulators kept on the runner object) were pre-empted
  (settings histories in C11; histories in which one runner object serves every run, digest extended by the returned aggregate and the
  reported countries). Caught as they stood: C06-i, C07-i, C08-i, C09-i, C13-i, C15-i, C17-i.

Miss rate per wave of *independent* changes against the machinery as it stood: 1/18, 2/18, 7/18, 3-5/18, 7-8/18, 6-7/11, 6/11, 8-10/18, 2-4/11. The waves asked
for narrow conditions are the informative ones, and their rate did not fall: a bounded exhaustive check is only as good as its
alphabet, and an adversary who is told to leave the alphabet finds the gaps. What they teach is recorded in section 7 (forms of
vacuity actually met). The properties whose quick checks were never missed: C01, C17 (C02 and C18 only pre-empted or as a harness error).
The checks of waves 8 and 9 were re-run against the earlier changes of the same property only where noted in `recheck`; the additions are
additive (new jobs, new clauses), no earlier clause or menu was removed.

**Cross-detection (partial).** For the first 12 changes (C01-a ... C06-b) every one of the 18 quick checks was run (`tools_seeded.py
matrix`, stored under `cross` in their `meta.json`). Off-diagonal alarms: C01-a -> C02, C12; C01-b -> C02; C02-a -> C01; C03-a -> C08, C18;
C03-b -> C16, C18; C05-a -> C02; C05-b -> C18; C06-a -> C03. Each was examined: all but one are the change really breaking that
property too (e.g. a wrong meat gross-up also breaks monotonicity; a changed herd shifts a marginal C03 case that is not in the
list). The exception, C05-a -> C02, was a false alarm of mine (the borderline-feasibility path of the C02 oracle, see 8.2) and was
corrected. The remaining rows of the matrix were not run (about 20 minutes per change on the loaded machine).

''' % (n, len(ok), len(rechecked), "" if not bad else "; NOT reported: %s" % bad) + t + '\n'
s=s[:i]+new+s[j:]
open('/verif/DESIGN.md','w').write(s)
print(n, len(rechecked), len(ok), bad)
