#!/usr/bin/env python3
"""Validate MANIFEST.json and evidence/*.json against the schemas (run with python3-vt)."""
import json, sys, glob, jsonschema
ok = True
m = json.load(open("/verif/MANIFEST.json"))
jsonschema.validate(m, json.load(open("/root/.vp/MANIFEST.schema.json")))
es = json.load(open("/root/.vp/EVIDENCE.schema.json"))
for f in sorted(glob.glob("/verif/evidence/*.json")):
    try:
        jsonschema.validate(json.load(open(f)), es)
    except Exception as e:
        ok = False
        print("INVALID", f, str(e)[:300])
ids = [l and json.loads(l)["id"] for l in open("/verif/properties.jsonl")]
claimed = [c["property_id"] for c in m["checks"]]
na = [c["property_id"] for c in m.get("not_applicable", [])]
for i in ids:
    if (i in claimed) == (i in na):
        ok = False
        print("property", i, "must be exactly one of claimed / not_applicable")
print("manifest ok; claimed", claimed, "n/a", na)
sys.exit(0 if ok else 1)
