"""Independent reference formulation of one round's linear programme (C02), and the ledger audit of a
solved allocation (C01).  Both are written from the documentation and the *supplies* (what physically
exists each month), never from the PuLP constraint objects of the model under test.  HiGHS (scipy) solves
the reference; it is an oracle for one enumerated instance, the enumeration is done by the engine."""
import numpy as np
import scipy.sparse as sp
from scipy.optimize import linprog


class LP:
    def __init__(self):
        self.n = 0
        self.names = {}
        self.rows, self.lo, self.hi = [], [], []

    def var(self, name, n=1):
        idx = np.arange(self.n, self.n + n)
        self.names[name] = idx
        self.n += n
        return idx

    def add(self, coefs, lo, hi):
        self.rows.append(coefs)
        self.lo.append(lo)
        self.hi.append(hi)

    def solve(self, obj_idx):
        r, c, d = [], [], []
        for i, row in enumerate(self.rows):
            for j, a in row:
                r.append(i)
                c.append(j)
                d.append(a)
        A = sp.csr_matrix((d, (r, c)), shape=(len(self.rows), self.n))
        lo, hi = np.array(self.lo, dtype=float), np.array(self.hi, dtype=float)
        eq = lo == hi
        up = (~eq) & np.isfinite(hi)
        dn = (~eq) & np.isfinite(lo)
        blocks, rhs = [], []
        if up.any():
            blocks.append(A[up])
            rhs.append(hi[up])
        if dn.any():
            blocks.append(-A[dn])
            rhs.append(-lo[dn])
        cvec = np.zeros(self.n)
        cvec[obj_idx] = -1
        res = None
        for method in ("highs", "highs-ds", "highs-ipm"):
            res = linprog(cvec, A_ub=sp.vstack(blocks) if blocks else None, b_ub=np.concatenate(rhs) if rhs else None,
                          A_eq=A[eq] if eq.any() else None, b_eq=lo[eq] if eq.any() else None, bounds=(0, None), method=method)
            if res.status in (0, 2, 3):      # solved, infeasible or unbounded are verdicts; 1/4 are solver trouble: try another algorithm
                break
        return res


def lp_of_pulp_model(model):
    """A PuLP model as plain matrices (maximisation): dict(A, lo, hi, c, bounds)"""
    vars_ = model.variables()
    idx = {v.name: i for i, v in enumerate(vars_)}
    rows, cols, vals, lo, hi = [], [], [], [], []
    for ci, con in enumerate(model.constraints.values()):
        for v, coef in con.items():
            rows.append(ci)
            cols.append(idx[v.name])
            vals.append(coef)
        rhs = -con.constant
        if con.sense == 0:
            lo.append(rhs)
            hi.append(rhs)
        elif con.sense == -1:
            lo.append(-np.inf)
            hi.append(rhs)
        else:
            lo.append(rhs)
            hi.append(np.inf)
    A = sp.csr_matrix((vals, (rows, cols)), shape=(len(lo), len(vars_)))
    c = np.zeros(len(vars_))
    for v, coef in model.objective.items():
        c[idx[v.name]] = coef
    sign = 1.0 if model.sense == -1 else -1.0      # pulp: LpMaximize == -1
    bounds = [(v.lowBound, v.upBound) for v in vars_]
    return {"A": A, "lo": np.array(lo, dtype=float), "hi": np.array(hi, dtype=float), "c": c * sign, "bounds": bounds}


def solve_matrix_lp(m, relax=0.0):
    """maximise c.x subject to lo <= A x <= hi and bounds, with HiGHS; returns (status, optimum).
    relax > 0 widens every row by relax x max(1, |rhs|) and lower bounds by relax: the feasibility tolerance with which the
    model's own solver accepts a programme that is infeasible only by solver noise (e.g. a pinned band around -1e-7)."""
    A, lo, hi = m["A"], m["lo"].copy(), m["hi"].copy()
    bounds = m["bounds"]
    if relax:
        lo = lo - relax * np.maximum(1.0, np.abs(np.where(np.isfinite(lo), lo, 0.0)))
        hi = hi + relax * np.maximum(1.0, np.abs(np.where(np.isfinite(hi), hi, 0.0)))
        bounds = [((b[0] - relax) if b[0] is not None else None, b[1]) for b in bounds]
    eq = lo == hi
    up = (~eq) & np.isfinite(hi)
    dn = (~eq) & np.isfinite(lo)
    blocks, rhs = [], []
    if up.any():
        blocks.append(A[up])
        rhs.append(hi[up])
    if dn.any():
        blocks.append(-A[dn])
        rhs.append(-lo[dn])
    res = None
    for method in ("highs", "highs-ds", "highs-ipm"):
        res = linprog(-m["c"], A_ub=sp.vstack(blocks) if blocks else None, b_ub=np.concatenate(rhs) if rhs else None,
                      A_eq=A[eq] if eq.any() else None, b_eq=lo[eq] if eq.any() else None, bounds=bounds, method=method)
        if res.status in (0, 2, 3):
            break
    return res.status, (-res.fun if res.status == 0 else None)


def _k(x):
    return np.asarray(x, dtype=float).ravel()


def inputs_of(consts, tc):
    """plain numbers of one instance (what exists), extracted once"""
    N = consts["NMONTHS"]
    d = {"N": N, "need": consts["POP"] * 30 * consts["KCALS_DAILY"] / 1e9, "store": bool(consts["STORE_FOOD_BETWEEN_YEARS"]),
         "pop": consts["POP"]}
    g = lambda key: 1.0 / (1 - consts[key] / 100.0)
    d["sf"] = consts["ADD_STORED_FOOD"] and {"g": g("STORED_FOOD_WASTE_RETAIL"), "S0": float(_k(consts["stored_food"].initial_available.kcals)[0])}
    d["cr"] = consts["ADD_OUTDOOR_GROWING"] and {"g": g("CROP_WASTE_RETAIL"), "P": _k(tc["outdoor_crops"].production.kcals)[:N]}
    d["mt"] = consts["ADD_MEAT"] and {"g": g("MEAT_WASTE_RETAIL"), "sl": _k(tc["each_month_meat_slaughtered"].kcals)[:N]}
    d["scp"] = consts["ADD_METHANE_SCP"] and {"g": g("SCP_RETAIL_WASTE"), "P": _k(tc["methane_scp"].kcals)[:N]}
    d["cs"] = consts["ADD_CELLULOSIC_SUGAR"] and {"g": g("CELL_SUGAR_RETAIL_WASTE"), "P": _k(tc["cellulosic_sugar"].kcals)[:N]}
    d["sw"] = consts["ADD_SEAWEED"] and {
        "g": g("SEAWEED_WASTE_RETAIL"), "k": consts["SEAWEED_KCALS"], "built": _k(tc["built_area"])[:N],
        "gr": _k(tc["growth_rates_monthly"])[:N] / 100.0, "S": consts["INITIAL_SEAWEED"], "A0": consts["INITIAL_BUILT_SEAWEED_AREA"],
        "loss": consts["HARVEST_LOSS"] / 100.0, "mind": consts["MINIMUM_DENSITY"], "maxd": consts["MAXIMUM_DENSITY"]}
    d["const_h"] = _k(tc["milk_kcals"])[:N] + _k(tc["greenhouse_crops"].kcals)[:N] + _k(tc["fish"].to_humans.kcals)[:N]
    d["feed"] = _k(tc["feed"].kcals)[:N]
    d["biofuel"] = _k(tc["biofuel"].kcals)[:N]
    inp = consts["inputs"]
    d["caps"] = {nm: tuple(inp["MAX_%s_AS_PERCENT_KCALS_%s" % (cn, who)] / 100.0 for who in ("HUMANS", "FEED", "BIOFUEL"))
                 for nm, cn in (("sw", "SEAWEED"), ("scp", "METHANE_SCP"), ("cs", "CELLULOSIC_SUGAR"))}
    if "max_feed_that_could_be_used" in tc:
        d["max_feed"] = _k(tc["max_feed_that_could_be_used"].kcals)[:N]
        d["max_biofuel"] = _k(tc["max_biofuel_that_could_be_used"].kcals)[:N]
    return d


def build_reference(d, kind, pins=None):
    """kind 'h': maximise the worst month's percent fed given the charged feed/biofuel;
       kind 'a': maximise 2/3 feed + 1/3 biofuel given pinned human consumption (pins: food -> billion kcal per month)"""
    N, NEED = d["N"], d["need"]
    lp = LP()
    z = lp.var("z")[0]
    human = [[] for _ in range(N)]
    feed = [[] for _ in range(N)]
    bio = [[] for _ in range(N)]
    pin = {}

    def triple(name):
        return lp.var(name + "_h", N), lp.var(name + "_f", N), lp.var(name + "_b", N)

    if d["sf"]:
        h, f, b = triple("sf")
        g, S0 = d["sf"]["g"], d["sf"]["S0"]
        for m in range(N):
            human[m].append((h[m], 1.0))
            feed[m].append((f[m], 1.0))
            bio[m].append((b[m], 1.0))
            if not d["store"] and m > 12:
                for v in (h[m], f[m], b[m]):
                    lp.add([(v, 1.0)], 0, 0)
            row = [(h[i], g) for i in range(m + 1)] + [(f[i], 1.0) for i in range(m + 1)] + [(b[i], 1.0) for i in range(m + 1)]
            last = m == N - 1 and d["store"] and kind == "h"
            lp.add(row, S0 if last else -np.inf, S0)
        pin["stored_food"] = (h, 1.0)
    if d["cr"]:
        h, f, b = triple("cr")
        g, P = d["cr"]["g"], np.cumsum(d["cr"]["P"])
        for m in range(N):
            human[m].append((h[m], 1.0))
            feed[m].append((f[m], 1.0))
            bio[m].append((b[m], 1.0))
            row = [(h[i], g) for i in range(m + 1)] + [(f[i], 1.0) for i in range(m + 1)] + [(b[i], 1.0) for i in range(m + 1)]
            last = m == N - 1 and kind == "h"
            lp.add(row, P[m] if last else -np.inf, P[m])
        pin["outdoor_crops"] = (h, 1.0)
    if d["mt"]:
        h = lp.var("mt_h", N)
        g, sl = d["mt"]["g"], d["mt"]["sl"]
        C = np.cumsum(sl)
        for m in range(N):
            human[m].append((h[m], 1.0))
            if d["store"]:
                lp.add([(h[i], g) for i in range(m + 1)], -np.inf, C[m])   # eaten so far <= slaughtered so far
            else:
                lp.add([(h[m], g)], -np.inf, sl[m])
        pin["meat"] = (h, 1.0)
    for nm, key in (("scp", "methane_scp"), ("cs", "cellulosic_sugar")):
        if d[nm]:
            h, f, b = triple(nm)
            g, P = d[nm]["g"], d[nm]["P"]
            for m in range(N):
                human[m].append((h[m], 1.0))
                feed[m].append((f[m], 1.0))
                bio[m].append((b[m], 1.0))
                lp.add([(h[m], g), (f[m], 1.0), (b[m], 1.0)], -np.inf, P[m])
            pin[key] = (h, 1.0)
    if d["sw"]:
        s = d["sw"]
        h, f, b = triple("sw")
        wet, area = lp.var("sw_wet", N), lp.var("sw_area", N)
        k = s["k"]
        for m in range(N):
            human[m].append((h[m], k))
            feed[m].append((f[m], k))
            bio[m].append((b[m], k))
            lp.add([(wet[m], 1.0)], s["S"], s["maxd"] * s["built"][m])
            lp.add([(area[m], 1.0)], s["A0"], s["built"][m])
            if m == 0:
                lp.add([(wet[0], 1.0)], s["S"], s["S"])
                lp.add([(area[0], 1.0)], s["A0"], s["A0"])
                for v in (h[0], f[0], b[0]):
                    lp.add([(v, 1.0)], 0, 0)
            else:
                lp.add([(wet[m], 1.0), (wet[m - 1], -(1 + s["gr"][m])), (h[m], s["g"]), (f[m], 1.0), (b[m], 1.0),
                        (area[m], s["mind"] * s["loss"]), (area[m - 1], -s["mind"] * s["loss"])], 0, 0)
        pin["seaweed"] = (h, k)
    for nm in ("sw", "scp", "cs"):
        if not d[nm]:
            continue
        k = d["sw"]["k"] if nm == "sw" else 1.0
        h, f, b = lp.names[nm + "_h"], lp.names[nm + "_f"], lp.names[nm + "_b"]
        ch, cf, cb = d["caps"][nm]
        for m in range(N):
            if kind == "h":
                lp.add([(h[m], k)], -np.inf, ch * NEED)
                lp.add([(h[m], k)] + [(i, -ch * a) for i, a in human[m]], -np.inf, ch * d["const_h"][m])
            lp.add([(f[m], k)], -np.inf, cf * d["feed"][m])
            lp.add([(b[m], k)], -np.inf, cb * d["biofuel"][m])
    if kind == "h":
        for m in range(N):
            if feed[m]:
                lp.add(feed[m], d["feed"][m], d["feed"][m])
            if bio[m]:
                lp.add(bio[m], d["biofuel"][m], d["biofuel"][m])
            lp.add([(z, 1.0)] + [(i, -100.0 * a / NEED) for i, a in human[m]], -np.inf, 100.0 * d["const_h"][m] / NEED)
    else:
        band = 1e-4 if d["pop"] < 1e7 else 1e-5
        for m in range(N):
            if feed[m]:
                lp.add(feed[m], -np.inf, d["max_feed"][m])
                lp.add(bio[m], -np.inf, d["max_biofuel"][m])
                if m > 0:
                    lp.add(feed[m] + [(i, -a) for i, a in feed[m - 1]], -np.inf, 0)
                    lp.add(bio[m] + [(i, -a) for i, a in bio[m - 1]], -np.inf, 0)
            for food, (h, k) in pin.items():
                v = float(pins[food][m])
                if -1e-6 < v < 0:
                    v = 0.0        # solver noise on a variable bounded below by zero (CBC primal tolerance 1e-7)
                lp.add([(h[m], k)], min((1 - band) * v, (1 + band) * v), max((1 - band) * v, (1 + band) * v))
        allf = [(i, -2 / 3 * a) for m in range(N) for i, a in feed[m]] + [(i, -1 / 3 * a) for m in range(N) for i, a in bio[m]]
        lp.add([(z, 1.0)] + allf, -np.inf, 0)
    return lp, z


def solve_reference(d, kind, pins=None, relax=0.0):
    lp, z = build_reference(d, kind, pins)
    if relax:
        lo, hi = np.array(lp.lo, dtype=float), np.array(lp.hi, dtype=float)
        lp.lo = list(lo - relax * np.maximum(1.0, np.abs(np.where(np.isfinite(lo), lo, 0.0))))
        lp.hi = list(hi + relax * np.maximum(1.0, np.abs(np.where(np.isfinite(hi), hi, 0.0))))
    res = lp.solve(z)
    return (res.status, -res.fun if res.status == 0 else None)


# ------------------------------------------------------------------ C01 ledger audit

REL, ABS = 1e-5, 1e-6     # cumulative clauses sum up to 120 solver values (CBC primal tolerance 1e-7 each)


def over(a, b):
    """a > b beyond tolerance"""
    return a > b + REL * max(1.0, abs(a), abs(b)) + ABS


def ledger(d, vals, kind):
    """returns list of (clause, month, detail); also a dict of which clauses were tight (non-vacuity)"""
    N = d["N"]
    out, tight = [], set()

    def V(name):
        return np.asarray(vals.get(name, np.zeros(N)), dtype=float)

    for name, arr in vals.items():
        a = np.asarray(arr, dtype=float)
        if a.size and a.min() < -(1e-6 + 1e-9 * max(1.0, float(np.abs(a).max()))):
            out.append(("nonnegative", int(a.argmin()), "%s = %r" % (name, float(a.min()))))
    if d["sf"]:
        g, S0 = d["sf"]["g"], d["sf"]["S0"]
        use = V("stored_food_to_humans") * g + V("stored_food_feed") + V("stored_food_biofuel")
        cu = np.cumsum(use)
        m = int(cu.argmax())
        if over(cu[m], S0):
            out.append(("stored_food_cumulative", m, "used %r by month %d > initial stock %r" % (cu[m], m, S0)))
        if d["store"]:
            if kind == "h":
                if abs(cu[-1] - S0) > REL * max(1.0, S0) + ABS:
                    out.append(("stored_food_fully_used", N - 1, "used %r of initial stock %r by the last month" % (cu[-1], S0)))
                else:
                    tight.add("stored_food_fully_used")
        elif use[13:].max(initial=0.0) > ABS + REL * max(1.0, S0):
            out.append(("stored_food_first_year_only", 13 + int(use[13:].argmax()), "stock used after month 12 although storage between years is off"))
    if d["cr"]:
        g, P = d["cr"]["g"], np.cumsum(d["cr"]["P"])
        cu = np.cumsum(V("crops_food_to_humans") * g + V("crops_food_feed") + V("crops_food_biofuel"))
        bad = [m for m in range(N) if over(cu[m], P[m])]
        if bad:
            out.append(("crops_cumulative", bad[0], "used %r by month %d > harvested so far %r" % (cu[bad[0]], bad[0], P[bad[0]])))
        if kind == "h":
            if abs(cu[-1] - P[-1]) > REL * max(1.0, P[-1]) + ABS:
                out.append(("crops_fully_used", N - 1, "used %r of %r harvested" % (cu[-1], P[-1])))
            else:
                tight.add("crops_fully_used")
    if d["mt"]:
        g, sl = d["mt"]["g"], d["mt"]["sl"]
        eat = V("meat_eaten") * g
        if d["store"]:
            ce, cs = np.cumsum(eat), np.cumsum(sl)
            bad = [m for m in range(N) if over(ce[m], cs[m])]
            if bad:
                out.append(("meat_cumulative", bad[0], "eaten %r by month %d > slaughtered so far %r" % (ce[bad[0]], bad[0], cs[bad[0]])))
            if any(abs(ce[m] - cs[m]) <= REL * max(1.0, cs[m]) + ABS and cs[m] > 0 for m in range(N)):
                tight.add("meat_cumulative")
        else:
            bad = [m for m in range(N) if over(eat[m], sl[m])]
            if bad:
                out.append(("meat_monthly", bad[0], "eaten %r in month %d > slaughtered %r" % (eat[bad[0]], bad[0], sl[bad[0]])))
    for nm, pre in (("scp", "methane_scp"), ("cs", "cellulosic_sugar")):
        if d[nm]:
            use = V(pre + "_to_humans") * d[nm]["g"] + V(pre + "_feed") + V(pre + "_biofuel")
            bad = [m for m in range(N) if over(use[m], d[nm]["P"][m])]
            if bad:
                out.append((pre + "_monthly", bad[0], "used %r in month %d > produced %r" % (use[bad[0]], bad[0], d[nm]["P"][bad[0]])))
            if any(abs(use[m] - d[nm]["P"][m]) <= 1e-6 * max(1.0, d[nm]["P"][m]) and d[nm]["P"][m] > 0 for m in range(N)):
                tight.add(pre + "_monthly")
    if d["sw"]:
        s = d["sw"]
        wet, area = V("seaweed_wet_on_farm"), V("used_area")
        h, f, b = V("seaweed_to_humans"), V("seaweed_feed"), V("seaweed_biofuel")
        if abs(wet[0] - s["S"]) > 1e-6 * max(1.0, s["S"]) or abs(area[0] - s["A0"]) > 1e-6 * max(1.0, s["A0"]) or max(h[0], f[0], b[0]) > 1e-6:
            out.append(("seaweed_start", 0, "month 0: biomass %r (initial %r), area %r (initial %r), use %r" % (wet[0], s["S"], area[0], s["A0"], (h[0], f[0], b[0]))))
        for m in range(1, N):
            exp = wet[m - 1] * (1 + s["gr"][m]) - h[m] * s["g"] - f[m] - b[m] - (area[m] - area[m - 1]) * s["mind"] * s["loss"]
            # 1e-4 thousand tons absolute: the ledger row carries a coefficient of 240 (minimum density x harvest loss) on the
            # used area, and CBC's 1e-7 row tolerance applies to the scaled row
            if abs(wet[m] - exp) > 1e-5 * max(1.0, abs(exp), abs(wet[m - 1] * (1 + s["gr"][m]))) + 1e-4:
                out.append(("seaweed_ledger", m, "biomass %r, growth-and-harvest ledger gives %r" % (wet[m], exp)))
                break
        for m in range(N):
            if wet[m] < s["S"] - 1e-6 * max(1.0, s["S"]) or over(wet[m], s["maxd"] * s["built"][m]):
                out.append(("seaweed_density_bounds", m, "biomass %r outside [%r, %r]" % (wet[m], s["S"], s["maxd"] * s["built"][m])))
                break
            if area[m] < s["A0"] - 1e-6 * max(1.0, s["A0"]) or over(area[m], s["built"][m]):
                out.append(("seaweed_area_bounds", m, "used area %r outside [%r, %r]" % (area[m], s["A0"], s["built"][m])))
                break
    k = d["sw"]["k"] if d["sw"] else 0.0
    fsum = V("stored_food_feed") + V("crops_food_feed") + V("seaweed_feed") * k + V("cellulosic_sugar_feed") + V("methane_scp_feed")
    bsum = V("stored_food_biofuel") + V("crops_food_biofuel") + V("seaweed_biofuel") * k + V("cellulosic_sugar_biofuel") + V("methane_scp_biofuel")
    has_sources = bool(d["sf"] or d["cr"] or d["sw"] or d["cs"] or d["scp"])
    if kind == "h":
        if has_sources:
            for nm, got, want in (("feed", fsum, d["feed"]), ("biofuel", bsum, d["biofuel"])):
                bad = [m for m in range(N) if abs(got[m] - want[m]) > REL * max(1.0, want[m]) + ABS]
                if bad:
                    out.append((nm + "_equals_charge", bad[0], "%s drawn %r in month %d, charged %r" % (nm, got[bad[0]], bad[0], want[bad[0]])))
    else:
        for nm, got, cap in (("feed", fsum, d["max_feed"]), ("biofuel", bsum, d["max_biofuel"])):
            bad = [m for m in range(N) if over(got[m], cap[m])]
            if bad:
                out.append((nm + "_within_ceiling", bad[0], "%s %r in month %d > demand ceiling %r" % (nm, got[bad[0]], bad[0], cap[bad[0]])))
        bad = [m for m in range(1, N) if over(fsum[m], fsum[m - 1])]
        if bad:
            out.append(("feed_never_rises", bad[0], "feed %r in month %d > %r the month before" % (fsum[bad[0]], bad[0], fsum[bad[0] - 1])))
    return out, tight, fsum, bsum
