"""Supplies engine (C08, C09): enumerates (country x supply-affecting option deviation x horizon)
through the real set_depending_on_option -> Parameters.compute_parameters_first_round path, and
full products of generated constants through the food_system classes called directly.  Every
series is compared month by month with a boring reference written from the documentation."""
import copy
import itertools

from . import common, options
from .common import violation

_S = {}


def init():
    if _S:
        return
    common.sandbox()
    with common.quiet():
        import numpy as np
        import pandas as pd
        from src.scenarios.run_scenario import ScenarioRunner
        from src.optimizer.parameters import Parameters
        from src.food_system.meat_and_dairy import MeatAndDairy
        from src.food_system.outdoor_crops import OutdoorCrops
        from src.food_system.greenhouses import Greenhouses
        from src.food_system.seafood import Seafood
        from src.food_system.stored_food import StoredFood
        from src.food_system.methane_scp import MethaneSCP
        from src.food_system.cellulosic_sugar import CellulosicSugar
        from src.food_system.seaweed import Seaweed
        from src.food_system.feed_and_biofuels import FeedAndBiofuels
        from src.food_system.food import Food
    tab = pd.read_csv("data/no_food_trade/computer_readable_combined.csv")
    _S.update(np=np, pd=pd, ScenarioRunner=ScenarioRunner, Parameters=Parameters, MeatAndDairy=MeatAndDairy,
              OutdoorCrops=OutdoorCrops, Greenhouses=Greenhouses, Seafood=Seafood, StoredFood=StoredFood,
              MethaneSCP=MethaneSCP, CellulosicSugar=CellulosicSugar, Seaweed=Seaweed,
              FeedAndBiofuels=FeedAndBiofuels, Food=Food, tab=tab,
              rows={r["iso3"]: r for _, r in tab.iterrows()})


def constants_for(iso, opts):
    """The real option dispatcher: (constants_for_params, time_consts_for_params, loader)."""
    init()
    with common.quiet():
        if iso == "WOR":
            return _S["ScenarioRunner"]().set_depending_on_option(copy.deepcopy(opts), country_data=None)
        return _S["ScenarioRunner"]().set_depending_on_option(copy.deepcopy(opts), country_data=_S["rows"][iso])


def first_round(iso, opts):
    c, t, loader = constants_for(iso, opts)
    cin = copy.deepcopy(c)
    tin = copy.deepcopy(t)
    with common.quiet():
        out = _S["Parameters"]().compute_parameters_first_round(c, t, loader)
        grass = _S["MeatAndDairy"](cin).human_inedible_feed
    return cin, tin, out, grass


# ------------------------------------------------------------------ reference model

SEED_FRACTION = 92.0 / 3898.0
MONTHS = ["JAN", "FEB", "MAR", "APR", "MAY", "JUN", "JUL", "AUG", "SEP", "OCT", "NOV", "DEC"]
START_MONTH = 4   # simulation month 0 is May (index 4 of a January-based cycle)


def model_year(i):
    """1-based model year of simulated month i: year 1 is May-December (8 months), then 12 each;
    the disruption tables stop at year 10, which is held from then on."""
    return 1 if i < 8 else min(10, 2 + (i - 8) // 12)


def year1_crop_ratio(ratio1, seasonality, iso):
    """Documented first-year adjustment (only the harvest after May is exposed to the disruption)."""
    before = {"ZAF": 1.0, "JPN": 0.0, "PRK": 0.0, "KOR": 0.0}.get(iso, sum(seasonality[:4]))
    after_nw = max(0.0, ratio1 - before)
    if after_nw <= 0:
        return 0.0
    after = 1 - before
    return 1.0 if after < 0.25 else after_nw / after


def ref_crops(c, n):
    """(grown without relocation, grown with relocation incl. expansion) before greenhouses and waste"""
    annual = c["BASELINE_CROP_KCALS"] * (1 - SEED_FRACTION)
    cyc = [s * annual * 4e6 / 1e9 for s in c["SEASONALITY"]]
    exponent = c["ROTATION_IMPROVEMENTS"]["POWER_LAW_IMPROVEMENT"] if c["OG_USE_BETTER_ROTATION"] else 1
    r1 = year1_crop_ratio(c["RATIO_CROPS_YEAR1"], c["SEASONALITY"], c.get("COUNTRY_CODE"))
    norel, rel = [], []
    for i in range(n):
        y = model_year(i)
        ratio = r1 if y == 1 else c["RATIO_CROPS_YEAR%d" % y]
        if ratio <= 0:
            ratio = round(ratio, 8)
        mk = cyc[(START_MONTH + i) % 12]
        norel.append(mk * ratio)
        rel.append(mk * ratio if ratio > 1 else mk * ratio ** exponent)
    if c["RATIO_INCREASED_CROP_AREA"] > 1:
        N = c["INITIAL_HARVEST_DURATION_IN_MONTHS"]
        total = c["NUMBER_YEARS_TAKES_TO_REACH_INCREASED_AREA"] * 12
        mx = c["RATIO_INCREASED_CROP_AREA"]
        for i in range(n):
            f = 1.0 if i < N else (mx if i >= total else 1 + (i - N) * (mx - 1) / (total - N))
            rel[i] *= f
    return norel, rel


def ref_greenhouse_area(c, n):
    total = c["INITIAL_GLOBAL_CROP_AREA"] * c["INITIAL_CROP_AREA_FRACTION"]
    if not c["ADD_GREENHOUSES"] or total == 0:
        return [0.0] * n, total
    limit = total * c["GREENHOUSE_AREA_MULTIPLIER"]
    d = c["DELAY"]["GREENHOUSE_MONTHS"] + 5
    out = []
    for i in range(n):
        if i < d:
            out.append(0.0)
        elif i < d + 37:
            out.append(limit * (i - d) / 36.0)
        else:
            out.append(limit)
    return out, total


def ref_outdoor(c, n, gh_fraction):
    if not c["ADD_OUTDOOR_GROWING"]:
        return [0.0] * n
    norel, rel = ref_crops(c, n)
    w = 1 - c["WASTE_DISTRIBUTION"]["CROPS"] / 100.0
    if c["OG_USE_BETTER_ROTATION"]:
        hd = c["INITIAL_HARVEST_DURATION_IN_MONTHS"] + c["DELAY"]["ROTATION_CHANGE_IN_MONTHS"]
        grown = [norel[i] if i < hd else rel[i] for i in range(n)]
    else:
        grown = norel
    return [grown[i] * (1 - gh_fraction[i]) * w for i in range(n)]


def ref_greenhouse_kcals(c, n):
    area, total = ref_greenhouse_area(c, n)
    if not c["ADD_GREENHOUSES"] or total == 0:
        return [0.0] * n
    annual = c["BASELINE_CROP_KCALS"] * (1 - SEED_FRACTION)
    mean_month = sum(s * annual * 4e6 / 1e9 for s in c["SEASONALITY"]) / 12.0
    exponent = c["ROTATION_IMPROVEMENTS"]["POWER_LAW_IMPROVEMENT"] if c["OG_USE_BETTER_ROTATION"] else 1
    r1 = year1_crop_ratio(c["RATIO_CROPS_YEAR1"], c["SEASONALITY"], c.get("COUNTRY_CODE"))
    w = (1 - c["WASTE_DISTRIBUTION"]["CROPS"] / 100.0) * (1 - c["WASTE_RETAIL"] / 100.0)
    out = []
    for i in range(n):
        y = model_year(i)
        ratio = r1 if y == 1 else c["RATIO_CROPS_YEAR%d" % y]
        if ratio <= 0:
            ratio = round(ratio, 8)
        per_ha = mean_month / total * (ratio if ratio > 1 else ratio ** exponent)
        out.append(per_ha * w * (1 + c["GREENHOUSE_GAIN_PCT"] / 100.0) * area[i])
    return out


def ref_fish(c, t, n):
    if not c["ADD_FISH"]:
        return [0.0] * n
    w = (1 - c["WASTE_DISTRIBUTION"]["SEAFOOD"] / 100.0) * (1 - c["WASTE_RETAIL"] / 100.0)
    monthly = c["FISH_DRY_CALORIC_ANNUAL"] * 4e6 / 1e9 / 12 * w
    return [float(t["FISH_PERCENT_MONTHLY"][i]) / 100.0 * monthly for i in range(n)]


def ref_grass(c, n):
    base = c["HUMAN_INEDIBLE_FEED_BASELINE_MONTHLY"]
    return [c["RATIO_GRASSES_YEAR%d" % model_year(i)] * base * 4e6 * 1e6 / 1e9 for i in range(n)]


def ref_demand(annual, duration, n):
    monthly = annual / 12.0 * 4e6 / 1e9
    return [monthly if i < duration else 0.0 for i in range(n)]


SCP_TABLE = [0] * 12 + [2] * 5 + [4] + [7] * 5 + [9] + [11] * 6 + [13]
CS_TABLE = [0.0] * 5 + [4.7] * 3


def ref_industrial(c, n, which):
    add = c["ADD_METHANE_SCP"] if which == "scp" else c["ADD_CELLULOSIC_SUGAR"]
    if not add:
        return [0.0] * n
    table, plateau = (SCP_TABLE, 15) if which == "scp" else (CS_TABLE, 9.5)
    frac = c["SCP_GLOBAL_PRODUCTION_FRACTION"] if which == "scp" else c["CS_GLOBAL_PRODUCTION_FRACTION"]
    delay = c["DELAY"]["INDUSTRIAL_FOODS_MONTHS"]
    need = c["GLOBAL_POP"] * c["NUTRITION"]["KCALS_DAILY"] * 30 / 1e9
    w = 1 - c["WASTE_DISTRIBUTION"]["SUGAR"] / 100.0
    out = []
    for i in range(n):
        j = i - delay
        pct = 0.0 if j < 0 else (table[j] if j < len(table) else plateau)
        out.append(pct / (1 - 0.12) * c["INDUSTRIAL_FOODS_SLOPE_MULTIPLIER"] / 100.0 * need * frac * w)
    return out


def scp_clause(c, n, got):
    """Names the clause for a methane-SCP mismatch: if the series equals the documented one with the start-up
    delay applied twice, it is the recorded finding 'scp_delay_applied_twice'; anything else is a new violation."""
    np = _S["np"]
    d = c["DELAY"].get("INDUSTRIAL_FOODS_MONTHS", 0) if c["ADD_METHANE_SCP"] else 0
    if d:
        c2 = copy.deepcopy(c)
        c2["DELAY"]["INDUSTRIAL_FOODS_MONTHS"] = 2 * d
        twice = np.asarray(ref_industrial(c2, n, "scp"), dtype=float)
        g = np.asarray(got, dtype=float).ravel()
        if len(g) == n and np.allclose(g, twice, rtol=1e-9, atol=1e-9 * max(1.0, float(np.max(np.abs(twice))))):
            return "scp_delay_applied_twice"
    return "series_methane_scp"


def ref_seaweed_area(c, n):
    init_area = 0.1 * c["SEAWEED_NEW_AREA_FRACTION"]
    per_month = 2.0765 * 30 * c["SEAWEED_NEW_AREA_FRACTION"]
    mx = 1853 * c["SEAWEED_MAX_AREA_FRACTION"]
    delay = c["DELAY"]["SEAWEED_MONTHS"] if c["ADD_SEAWEED"] else 10 ** 6
    out = []
    for i in range(n):
        a = init_area if i < delay else init_area + (i - delay) * per_month
        out.append(min(a, mx))
    return out


def ref_growth(c):
    keys = sorted(int(k) for k in c["SEAWEED_GROWTH_PER_DAY"])
    return [100 * ((c["SEAWEED_GROWTH_PER_DAY"][str(k)] / 100.0 + 1) ** 30) for k in keys]


def ref_stock(c):
    if not c["ADD_STORED_FOOD"]:
        return 0.0
    stocks = [c["END_OF_MONTH_STOCKS"][m] for m in MONTHS]
    tons = stocks[START_MONTH - 1] * c["PERCENT_STORED_FOOD_TO_USE"] / 100.0 - min(stocks) * c["RATIO_STOCKS_UNTOUCHED"]
    return tons * 4e6 / 1e9 * (1 - c["WASTE_DISTRIBUTION"]["CROPS"] / 100.0)


# ------------------------------------------------------------------ comparison


def cmp_series(name, got, want, n, out, key, rp, clause=None, rel=1e-9, exact_len=True):
    np = _S["np"]
    g = np.asarray(got, dtype=float).ravel()
    clause = clause or ("series_" + name)
    if (exact_len and len(g) != n) or len(g) < n:
        out.append(violation("length_" + name, key, "%s has %d values for %d simulated months" % (name, len(g), n), rp))
        return
    g = g[:n]
    if not np.all(np.isfinite(g)) or (g < -1e-12).any():
        out.append(violation("finite_nonneg_" + name, key, "%s: %s" % (name, g[:12].tolist()), rp))
        return
    if want is None:
        return
    w = np.asarray(want, dtype=float)
    scale = max(1.0, float(np.max(np.abs(w))) if len(w) else 1.0)
    bad = np.where(np.abs(g - w) > rel * scale)[0]
    if len(bad):
        m = int(bad[0])
        out.append(violation(clause, key, "%s month %d: got %r, documented function gives %r (first of %d months; calendar month %s, model year %d)"
                             % (name, m, float(g[m]), float(w[m]), len(bad), MONTHS[(START_MONTH + m) % 12], model_year(m)), rp))


def check_first_round(iso, opts, want=("C08", "C09"), tag=None):
    """One execution of the real first-round parameter computation, all series checked."""
    np = _S["np"]
    c, t, out, grass = first_round(iso, opts)
    co, tc, feed_demand, biofuels_demand = out[0], out[1], out[4], out[5]
    n = c["NMONTHS"]
    key = {"iso3": iso, "deviation": tag or "default", "NMONTHS": n, "preset": opts.get("_preset", "")}
    rp = {"kind": "first_round", "iso3": iso, "opts": {k: v for k, v in opts.items()}}
    v8, v9 = [], []
    gh_area_ref, total_area = ref_greenhouse_area(c, n)
    gh_frac_ref = [a / total_area if total_area else 0.0 for a in gh_area_ref]
    oc = tc["outdoor_crops"]
    prod = oc.production.kcals
    if "C08" in want:
        # outdoor crops: value clause only where no cropland is under greenhouses (that interplay is C09's)
        no_gh = max(gh_frac_ref) == 0
        cmp_series("outdoor_crops", prod, ref_outdoor(c, n, gh_frac_ref) if no_gh else None, n, v8, key, rp)
        cmp_series("greenhouse_crops", tc["greenhouse_crops"].kcals, ref_greenhouse_kcals(c, n), n, v8, key, rp)
        cmp_series("fish", tc["fish"].to_humans.kcals, ref_fish(c, t, n), n, v8, key, rp)
        cmp_series("grass", grass.kcals, ref_grass(c, n), n, v8, key, rp)
        cmp_series("feed_demand", feed_demand.kcals, ref_demand(c["FEED_KCALS"], c["DELAY"]["FEED_SHUTOFF_MONTHS"], n), n, v8, key, rp)
        cmp_series("biofuel_demand", biofuels_demand.kcals, ref_demand(c["BIOFUEL_KCALS"], c["DELAY"]["BIOFUEL_SHUTOFF_MONTHS"], n), n, v8, key, rp)
        cmp_series("methane_scp", tc["methane_scp"].kcals, ref_industrial(c, n, "scp"), n, v8, key, rp,
                   clause=scp_clause(c, n, tc["methane_scp"].kcals))
        cmp_series("cellulosic_sugar", tc["cellulosic_sugar"].kcals, ref_industrial(c, n, "cs"), n, v8, key, rp)
        cmp_series("seaweed_built_area", tc["built_area"], ref_seaweed_area(c, n), n, v8, key, rp)
        gr = ref_growth(c)
        cmp_series("seaweed_growth", tc["growth_rates_monthly"], gr[:n], n, v8, key, rp, exact_len=False)
        sf = co["stored_food"].initial_available.kcals
        sf = float(np.asarray(sf, dtype=float).ravel()[0]) if np.ndim(sf) else float(sf)
        want_sf = ref_stock(c)
        if not (sf == sf and sf >= -1e-12 and common.close(sf, want_sf, rel=1e-9)):
            v8.append(violation("stored_food_initial", key, "initial stock %r, documented function gives %r" % (sf, want_sf), rp))
        for name in ("feed", "biofuel"):
            cmp_series("round1_" + name, tc[name].kcals, [0.0] * n, n, v8, key, rp)
    if "C09" in want:
        # greenhouse area schedule (area = greenhouse kcals / per-ha yield is not observable; use the class)
        with common.quiet():
            gh = _S["Greenhouses"](dict(c, STARTING_MONTH_NUM=5))
            area = gh.get_greenhouse_area(c, oc)
        cmp_series("greenhouse_area", area, gh_area_ref, n, v9, key, rp, clause="greenhouse_area_schedule")
        d = (c["DELAY"].get("GREENHOUSE_MONTHS", 0) + 5) if c["ADD_GREENHOUSES"] else n
        a = np.asarray(area, dtype=float)
        if (a[:min(d, n)] != 0).any():
            v9.append(violation("greenhouse_zero_until_delay", key, "area before month %d: %s" % (d, a[:d].tolist()), rp))
        if (np.diff(a) < -1e-9 * max(1.0, a.max())).any():
            v9.append(violation("greenhouse_monotone", key, "area decreases: %s" % a[:50].tolist(), rp))
        if total_area and a.max() > total_area * c.get("GREENHOUSE_AREA_MULTIPLIER", 0) * (1 + 1e-9) + 1e-9:
            v9.append(violation("greenhouse_within_share", key, "max area %r > share %r" % (a.max(), total_area * c.get("GREENHOUSE_AREA_MULTIPLIER", 0)), rp))
        frac_real = a / total_area if total_area else a * 0
        cmp_series("outdoor_crops", prod, ref_outdoor(c, n, frac_real.tolist()), n, v9, key, rp,
                   clause="outdoor_minus_greenhouse_fraction")
    return {"C08": v8, "C09": v9}, c, tc, out


# ------------------------------------------------------------------ metamorphic: scaling

SCALE_KEYS = {
    "crops": (["BASELINE_CROP_KCALS", "BASELINE_CROP_FAT", "BASELINE_CROP_PROTEIN"], ["outdoor_crops", "greenhouse_crops"]),
    "fish": (["FISH_DRY_CALORIC_ANNUAL", "FISH_FAT_TONS_ANNUAL", "FISH_PROTEIN_TONS_ANNUAL"], ["fish"]),
    "feed": (["FEED_KCALS", "FEED_FAT", "FEED_PROTEIN"], ["feed_demand"]),
    "biofuel": (["BIOFUEL_KCALS", "BIOFUEL_FAT", "BIOFUEL_PROTEIN"], ["biofuel_demand"]),
    "grass": (["HUMAN_INEDIBLE_FEED_BASELINE_MONTHLY"], ["grass"]),
    "stocks": (["END_OF_MONTH_STOCKS"], ["stored_food"]),
    "scp": (["SCP_GLOBAL_PRODUCTION_FRACTION"], ["methane_scp"]),
    "cs": (["CS_GLOBAL_PRODUCTION_FRACTION"], ["cellulosic_sugar"]),
}


def series_from_constants(c, t):
    """Supply classes called directly on a constants dictionary (no herd run): name -> array"""
    np = _S["np"]
    c = copy.deepcopy(c)
    c["STARTING_MONTH_NUM"] = 5
    n = c["NMONTHS"]
    with common.quiet():
        _S["Food"].conversions.set_nutrition_requirements(
            kcals_daily=c["NUTRITION"]["KCALS_DAILY"], fat_daily=c["NUTRITION"]["FAT_DAILY"],
            protein_daily=c["NUTRITION"]["PROTEIN_DAILY"], include_fat=False, include_protein=False, population=c["POP"])
        oc = _S["OutdoorCrops"](c)
        oc.calculate_rotation_ratios(c)
        if c["ADD_OUTDOOR_GROWING"] or c["ADD_GREENHOUSES"]:
            oc.calculate_monthly_production(c)
        gh = _S["Greenhouses"](c)
        area = gh.get_greenhouse_area(c, oc)
        if c["INITIAL_CROP_AREA_FRACTION"] == 0:
            ghk = np.zeros(n)
        else:
            ghk = np.multiply(gh.get_greenhouse_yield_per_ha(c, oc)[0], area)
        oc.set_crop_production_minus_greenhouse_area(c, gh.greenhouse_fraction_area)
        sf = _S["StoredFood"](c, oc)
        if c["ADD_STORED_FOOD"]:
            sf.calculate_stored_food_to_use(5)
            stock = float(sf.initial_available.kcals)
        else:
            stock = 0.0
        fish = _S["Seafood"](c)
        fish.set_seafood_production(t)
        scp = _S["MethaneSCP"](c)
        scp.calculate_monthly_scp_caloric_production(c)
        cs = _S["CellulosicSugar"](c)
        cs.calculate_monthly_cs_production(c)
        sw = _S["Seaweed"](c)
        fb = _S["FeedAndBiofuels"](c)
        bio, feed = fb.get_biofuels_and_feed_from_delayed_shutoff(c)
        grass = _S["MeatAndDairy"](c).human_inedible_feed
        res = {
            "outdoor_crops": np.asarray(oc.production.kcals, dtype=float), "greenhouse_crops": np.asarray(ghk, dtype=float),
            "greenhouse_area": np.asarray(area, dtype=float), "stored_food": np.array([stock]),
            "fish": np.asarray(fish.to_humans.kcals, dtype=float), "methane_scp": np.asarray(scp.production_kcals_scp_per_month, dtype=float),
            "cellulosic_sugar": np.asarray(cs.production.kcals, dtype=float), "seaweed_built_area": np.asarray(sw.get_built_area(c), dtype=float),
            "seaweed_growth": np.asarray(sw.get_growth_rates(c), dtype=float), "feed_demand": np.asarray(feed.kcals, dtype=float),
            "biofuel_demand": np.asarray(bio.kcals, dtype=float), "grass": np.asarray(grass.kcals, dtype=float),
        }
    return res


def reference_from_constants(c, t):
    n = c["NMONTHS"]
    area, total = ref_greenhouse_area(c, n)
    frac = [a / total if total else 0.0 for a in area]
    return {
        "outdoor_crops": ref_outdoor(c, n, frac), "greenhouse_crops": ref_greenhouse_kcals(c, n), "greenhouse_area": area,
        "stored_food": [ref_stock(c)], "fish": ref_fish(c, t, n), "methane_scp": ref_industrial(c, n, "scp"),
        "cellulosic_sugar": ref_industrial(c, n, "cs"), "seaweed_built_area": ref_seaweed_area(c, n),
        "seaweed_growth": ref_growth(c), "feed_demand": ref_demand(c["FEED_KCALS"], c["DELAY"]["FEED_SHUTOFF_MONTHS"], n),
        "biofuel_demand": ref_demand(c["BIOFUEL_KCALS"], c["DELAY"]["BIOFUEL_SHUTOFF_MONTHS"], n), "grass": ref_grass(c, n),
    }


def scale_constants(c, group, k):
    c2 = copy.deepcopy(c)
    for name in SCALE_KEYS[group][0]:
        if isinstance(c2[name], dict):
            c2[name] = {a: b * k for a, b in c2[name].items()}
        else:
            c2[name] = c2[name] * k
    return c2


def check_direct(c, t, label, want=("C08", "C09"), names=None, scaling=True):
    """Direct calls on a (generated) constants dictionary: value clauses + homogeneity."""
    np = _S["np"]
    n = c["NMONTHS"]
    key = {"direct": label}
    rp = {"kind": "direct", "label": label, "constants": c, "time": {"FISH_PERCENT_MONTHLY": list(map(float, t["FISH_PERCENT_MONTHLY"]))}}
    v8, v9 = [], []
    try:
        got = series_from_constants(c, t)
    except AssertionError as e:
        # a documented precondition of the class rejected the generated constants: not an execution
        return {"C08": [], "C09": []}, None, "rejected:" + repr(e)[:80]
    ref = reference_from_constants(c, t)
    gh_on = max(ref["greenhouse_area"]) > 0
    for name in (names or got):
        n_expected = 1 if name == "stored_food" else n
        if name == "outdoor_crops":
            if "C09" in want:
                cmp_series(name, got[name], ref[name], n_expected, v9, key, rp, clause="outdoor_minus_greenhouse_fraction")
            if "C08" in want:
                cmp_series(name, got[name], None if gh_on else ref[name], n_expected, v8, key, rp)
        elif name == "greenhouse_area":
            if "C09" in want:
                cmp_series(name, got[name], ref[name], n_expected, v9, key, rp, clause="greenhouse_area_schedule")
        elif "C08" in want:
            cmp_series(name, got[name], ref[name][:n_expected] if name == "seaweed_growth" else ref[name], n_expected, v8, key, rp,
                       exact_len=(name != "seaweed_growth"),
                       clause=scp_clause(c, n, got[name]) if name == "methane_scp" else None)
    if scaling and "C08" in want:
        for group, (_, affected) in SCALE_KEYS.items():
            for k in (0.5, 3.0):
                c2 = scale_constants(c, group, k)
                if group in ("scp", "cs") and not (0 <= c2[SCALE_KEYS[group][0][0]] <= 1):
                    continue
                try:
                    g2 = series_from_constants(c2, t)
                except AssertionError:
                    continue
                for name in affected:
                    a, b = got[name] * k, g2[name]
                    sc = max(1e-300, float(np.max(np.abs(a))) if len(a) else 0.0)
                    if len(a) != len(b) or (np.abs(a - b) > 1e-9 * max(sc, 1e-12)).any():
                        v8.append(violation("homogeneity_" + name, dict(key, scaled=group, factor=k),
                                            "baseline %s x %s: series is not x %s (first values %s vs %s)" % (group, k, k, b[:3].tolist(), a[:3].tolist()), rp))
    if "C09" in want and c["ADD_OUTDOOR_GROWING"]:
        # no quantisation: scaling the baseline down by 1e-3 scales every month by 1e-3
        c2 = scale_constants(c, "crops", 1e-3)
        g2 = series_from_constants(c2, t)
        a, b = got["outdoor_crops"] * 1e-3, g2["outdoor_crops"]
        sc = float(np.max(np.abs(a))) if len(a) else 0.0
        if sc > 0 and (np.abs(a - b) > 1e-9 * sc).any():
            m = int(np.argmax(np.abs(a - b)))
            v9.append(violation("no_quantisation", key, "baseline x 1e-3: month %d gives %r, expected %r" % (m, float(b[m]), float(a[m])), rp))
        if sc > 0 and np.all(got["outdoor_crops"] == np.round(got["outdoor_crops"])) and not np.all(np.asarray(ref["outdoor_crops"]) == np.round(ref["outdoor_crops"])):
            v9.append(violation("no_quantisation", key, "every monthly value is a whole number: %s" % got["outdoor_crops"][:8].tolist(), rp))
    return {"C08": v8, "C09": v9}, got, "ok"
