"""Common machinery for the bounded exhaustive exploration of allfed-integrated-model.

Everything here is independent of the code under test except `sandbox()`, which prepares
a private working directory so that `import src...` (resolving to /repo's working tree
through the venv's editable install) finds `data/`, `scenarios/` and a private `results/`.
"""
import atexit
import contextlib
import hashlib
import io
import itertools
import json
import multiprocessing as mp
import os
import shutil
import subprocess
import sys
import tempfile
import time

VERIF = os.path.dirname(os.path.dirname(os.path.abspath(__file__)))
REPO = os.environ.get("VERIF_REPO", "/repo")
NPROC = int(os.environ.get("VERIF_NPROC", "16"))

_BASE = None
_SANDBOX = None


def _base_dir():
    """Run-time scratch root (removed when the command exits)."""
    global _BASE
    if _BASE is None:
        _BASE = os.environ.get("VERIF_SCRATCH_BASE")
        if _BASE is None:
            _BASE = tempfile.mkdtemp(prefix="mcverif_")
            os.environ["VERIF_SCRATCH_BASE"] = _BASE
            owner = os.getpid()

            def _cleanup():
                if os.getpid() == owner:
                    shutil.rmtree(_BASE, ignore_errors=True)

            atexit.register(_cleanup)
    return _BASE


def sandbox(tag=None):
    """chdir into a private git-initialised directory whose data/ and scenarios/ point at
    /repo.  Must be called BEFORE importing anything from `src`."""
    global _SANDBOX
    if _SANDBOX is not None and os.path.isdir(_SANDBOX):
        os.chdir(_SANDBOX)
        return _SANDBOX
    d = os.path.join(_base_dir(), tag or ("w%d" % os.getpid()))
    os.makedirs(os.path.join(d, "results"), exist_ok=True)
    if not os.path.isdir(os.path.join(d, ".git")):
        subprocess.run(["git", "init", "-q", d], check=True, stdout=subprocess.DEVNULL,
                       stderr=subprocess.DEVNULL)
    for name in ("data", "scenarios"):
        link = os.path.join(d, name)
        if not os.path.islink(link):
            os.symlink(os.path.join(REPO, name), link)
    os.chdir(d)
    os.environ.setdefault("MPLBACKEND", "Agg")
    import warnings
    warnings.filterwarnings("ignore")
    if REPO not in sys.path:
        # the editable install already maps `src` to /repo; this makes VERIF_REPO work too
        sys.path.insert(0, REPO)
    _SANDBOX = d
    return d


@contextlib.contextmanager
def quiet():
    buf = io.StringIO()
    with contextlib.redirect_stdout(buf):
        yield buf


# ----------------------------------------------------------------------------- pool


def _worker_init(init_fn):
    global _SANDBOX
    _SANDBOX = None
    sandbox()
    if init_fn is not None:
        init_fn()


def pmap(fn, jobs, init_fn=None, chunksize=None, nproc=None, fresh_process_per_job=False):
    """Run fn over jobs in worker processes, each in its own sandbox.  Order preserved.
    fresh_process_per_job: every job runs in a newly forked process (the parent must not have imported the code under test)."""
    jobs = list(jobs)
    nproc = min(nproc or NPROC, max(1, len(jobs)))
    _base_dir()
    if nproc <= 1 or os.environ.get("VERIF_SERIAL"):
        _worker_init(init_fn)
        return [fn(j) for j in jobs]
    if chunksize is None:
        chunksize = max(1, min(64, len(jobs) // (nproc * 8)))
    ctx = mp.get_context("fork")
    if fresh_process_per_job:
        assert "src" not in sys.modules, "parent process already imported the code under test"
        with ctx.Pool(nproc, initializer=_worker_init, initargs=(init_fn,), maxtasksperchild=1) as pool:
            return pool.map(fn, jobs, chunksize=1)
    with ctx.Pool(nproc, initializer=_worker_init, initargs=(init_fn,)) as pool:
        return pool.map(fn, jobs, chunksize=chunksize)


# ----------------------------------------------------------------------------- numerics


def close(a, b, rel=1e-6, abs_=None):
    a = float(a)
    b = float(b)
    if a != a or b != b:
        return False
    tol = rel * max(1.0, abs(a), abs(b))
    if abs_ is not None:
        tol = max(tol, abs_)
    return abs(a - b) <= tol


def leq(a, b, rel=1e-6, abs_=0.0):
    """a <= b up to tolerance."""
    a = float(a)
    b = float(b)
    if a != a or b != b:
        return False
    return a <= b + rel * max(1.0, abs(a), abs(b)) + abs_


def digest(obj):
    return hashlib.sha256(json.dumps(obj, sort_keys=True, default=_jsonable).encode()).hexdigest()[:16]


def _jsonable(o):
    try:
        import numpy as np
        if isinstance(o, np.ndarray):
            return o.tolist()
        if isinstance(o, (np.floating,)):
            return float(o)
        if isinstance(o, (np.integer,)):
            return int(o)
        if isinstance(o, (np.bool_,)):
            return bool(o)
    except Exception:
        pass
    if isinstance(o, (set, frozenset)):
        return sorted(o, key=repr)
    if isinstance(o, tuple):
        return list(o)
    return repr(o)


def jdump(obj, path):
    os.makedirs(os.path.dirname(path), exist_ok=True)
    tmp = path + ".tmp%d" % os.getpid()
    with open(tmp, "w") as f:
        json.dump(obj, f, indent=1, sort_keys=True, default=_jsonable)
        f.write("\n")
    os.replace(tmp, path)


# ----------------------------------------------------------------------------- enumeration


def deviations(menus, k):
    """Every choice vector (dict name -> index) that differs from all-defaults (index 0)
    in at most k positions; simplest first (0 deviations, then 1, then 2...)."""
    names = list(menus)
    for r in range(k + 1):
        for pos in itertools.combinations(range(len(names)), r):
            alts = [range(1, len(menus[names[p]])) for p in pos]
            for combo in itertools.product(*alts):
                yield {names[p]: c for p, c in zip(pos, combo)}


def rotate(seq, seed, n):
    """Deterministic slice selection: n items of seq starting at an offset derived from
    the seed.  Not sampling: the slice is named in the evidence and fully enumerated."""
    seq = list(seq)
    if n >= len(seq):
        return seq
    off = (seed * 7919) % len(seq)
    return [seq[(off + i) % len(seq)] for i in range(n)]


# ----------------------------------------------------------------------------- results


class Violation(dict):
    """keys: clause (str), key (dict identifying input/call-site narrowly),
    detail (str), replay (dict, self-contained inputs for replay)."""


def violation(clause, key, detail, replay=None):
    return Violation(clause=clause, key=key, detail=detail, replay=replay or {})


class Timer:
    def __init__(self):
        self.t0 = time.time()

    def s(self):
        return round(time.time() - self.t0, 2)
