"""C06 Herd head-count ledger balances every month (herd engine, see mc/herd.py)."""
from .. import herd


def run(tier, seed):
    cov, vs, errors = herd.explore("C06", tier, seed)
    cov["oracle"] = ("ledger recomputed from the returned lists: end = max(0, start + births + transfer_in - retiring - "
                     "other deaths - slaughter - starvation deaths - homekill); all flows >= 0; milk retiring + male calves == "
                     "meat herd transfer_in; per size class slaughter hours <= baseline capacity; slaughter <= available; "
                     "slaughter never takes the herd below target")
    if errors:
        raise RuntimeError("herd harness errors: %s" % (errors[:3],))
    return {"coverage": cov, "violations": vs,
            "assumptions": ["list index alignment with remove_first_month=0: population[m]/[m+1] are start/end of month m; "
                            "births, transfers, retirements index m; slaughter, deaths, homekill index m+1"]}


def replay(rp):
    return herd.replay("C06", rp)
