"""C01 - decided on the shared pipeline executions (mc/pipeline.py); this module only selects its monitor."""
from .. import pipeline

ORACLE = {
    "C01": "ledger audit written from the supplies: all variables >= 0; stored food cumulative use <= initial stock (== at the last month in people-maximising rounds when stock may be carried between years; no use after month 12 otherwise); crops cumulative use <= cumulative harvest (== at the last month); meat cumulative eaten/(1-waste) <= cumulative slaughter (same-month in the no-storage regime); SCP and sugar monthly use <= monthly output; seaweed growth-and-harvest recurrence, biomass within [initial, max density x built area], used area within [initial built, built]; feed/biofuel == charged series (people rounds), <= ceiling and feed non-increasing (feed round)",
    "C02": "an independently formulated LP (cumulative 'what exists so far' constraints built only from the captured supplies, waste factors, intake caps, charge/ceilings and pinned bands) solved with HiGHS; |optimum_CBC - optimum_HiGHS| <= 1e-5 relative; a reference that is infeasible where the model reports optimal is a violation",
    "C03": "relations between the rounds of one run: final < T-0.1 => feed+biofuel from human-edible food <= 0.1 percent-fed-equivalent every month and final >= no-feed round - 0.05; no-feed round >= T => final >= T - 0.05; every round and month feed <= feed demand schedule and biofuel <= biofuel demand schedule (recomputed from annual baselines and shut-off months), zero from the shut-off month on",
    "C04": "headline == min over months of the summed per-food kcal-equivalent series / daily need; each series == captured variable value x 1e9/(30 x POP) (seaweed x its kcal factor); |headline - first-stage optimum| <= 0.01 %; CSV cell == returned series cell (1e-9); immediate + new-stored == crops to humans each month; rounded percent attributes within their documented rounding",
    "C05": "meat energy[m] == sum over species of slaughter[m] x per-head kcal of its class x (1 - distribution waste) (monthly in people rounds, total in the feed round); milk[m] == milking head[m] x yield/12 x 610 kcal/kg x (1-dist)(1-retail); final-round feed charge >= feed eaten by the final herd run; grass used <= grass given; a round charging no feed ran its herds on no feed",
    "C16": "the run itself: completes without exception or sys.exit, every built-in assertion passes, no validation banner printed, headline finite and >= 0, caller's options untouched",
}["C01"]


def run(tier, seed):
    res = pipeline.run_property("C01", tier, seed, ORACLE,
                                ["CBC and HiGHS are trusted as LP solvers (oracles for one enumerated instance each)",
                                 "cumulative clauses use 1e-5 relative + 1e-6 absolute (sums of up to 120 solver values)"])
    # deepening: full product of tiny (3- and 5-month) programmes on the real Optimizer, same oracles
    from .. import tiny
    t = tiny.explore(tier)
    cov = res["coverage"]
    cov["tiny_instance_product"] = {k: t[k] for k in ("n", "solved", "distinct_optima", "bound")}
    for k in ("executions", "traces_validated_against_impl", "lp_instances"):
        cov[k] += t["n"]
    cov["states"] += t["solved"] * 3
    cov["transitions"] += t["solved"] * 2
    cov["samples"].append({"tiny": next(iter(tiny.instances(tier)))})
    res["violations"] = res["violations"] + t["C01"]
    return res


def replay(rp):
    if "tiny" in rp:
        from .. import tiny
        return tiny.replay("C01", rp["tiny"])
    return pipeline.replay("C01", rp)
