"""C17 Shipped input tables are exactly what the import pipeline derives from raw data.

(i)   all 21 import scripts re-run in a scratch copy of data/ (processed_data/ emptied first; thorough: also the documented order strictly sequentially), outputs compared byte for byte with the shipped files;
(ii)  every cell of the combined table against the stated domain rules;
(iii) the averaging helper: full product of value vectors x weight vectors on the quarter grid."""
import filecmp
import itertools
import os
import shutil
import subprocess
import sys

from .. import common
from ..common import violation

SCRIPTS = ["create_aquaculture_csv", "create_grasses_baseline_csv", "create_scp_csv", "create_biofuel_csv", "create_greenhouse_csv",
           "create_seasonality_csv", "create_crop_macros_csv", "create_head_count_csv", "create_seaweed_csv",
           "create_relocation_improvement_csv", "create_dairy_csv", "create_meat_csv", "create_feed_csv", "create_nuclear_winter_csv",
           "create_food_stock_csv", "create_population_csv", "create_food_waste_csv", "create_pulp_csv", "create_milk_per_animal_csv",
           "create_meat_per_animal_csv"]
MERGE = "import_food_data"
SRC = os.path.join(common.REPO, "src", "import_scripts_no_food_trade")
NOFT = os.path.join(common.REPO, "data", "no_food_trade")


def make_scratch(tag, empty_processed=False):
    d = os.path.join(common._base_dir(), "imports_" + tag)
    shutil.rmtree(d, ignore_errors=True)
    os.makedirs(d)
    subprocess.run(["git", "init", "-q", d], check=True, stdout=subprocess.DEVNULL, stderr=subprocess.DEVNULL)
    shutil.copytree(os.path.join(common.REPO, "data"), os.path.join(d, "data"))
    if empty_processed:
        p = os.path.join(d, "data", "no_food_trade", "processed_data")
        for f in os.listdir(p):
            os.remove(os.path.join(p, f))
        os.remove(os.path.join(d, "data", "no_food_trade", "computer_readable_combined.csv"))
    return d


def run_script(args):
    name, scratch = args
    env = {k: v for k, v in os.environ.items() if k != "VERIF_SCRATCH_BASE"}
    env["MPLBACKEND"] = "Agg"
    p = subprocess.run([sys.executable, os.path.join(SRC, name + ".py")], cwd=scratch, env=env, capture_output=True, text=True)
    return name, p.returncode, (p.stdout + p.stderr)[-500:]


def compare(scratch, vs, only=None):
    n = 0
    shipped = os.path.join(NOFT, "processed_data")
    made = os.path.join(scratch, "data", "no_food_trade", "processed_data")
    files = sorted(set(os.listdir(shipped)) | set(os.listdir(made)))
    for f in files:
        if only is not None and f not in only:
            continue
        n += 1
        a, b = os.path.join(shipped, f), os.path.join(made, f)
        if not (os.path.exists(a) and os.path.exists(b) and filecmp.cmp(a, b, shallow=False)):
            vs.append(violation("processed_table_reproduced", {"file": f}, "processed_data/%s: regenerated file %s" % (
                f, "differs from the shipped one" if os.path.exists(a) and os.path.exists(b) else "is missing on one side"), {"kind": "imports"}))
    return n


def check_cells(vs):
    import pandas as pd
    import numpy as np
    sys.path.insert(0, common.REPO)
    t = pd.read_csv(os.path.join(NOFT, "computer_readable_combined.csv"))
    from src.utilities.import_utilities import ImportUtilities
    expected = sorted(c.replace("SWZ", "SWT") for c in ImportUtilities.country_codes)
    rp = {"kind": "cells"}

    def bad(clause, key, detail):
        vs.append(violation(clause, key, detail, rp))
    if sorted(t["iso3"]) != expected:
        bad("one_row_per_expected_country", {"what": "rows"}, "rows %d, expected countries %d; symmetric difference %s" % (len(t), len(expected), sorted(set(t["iso3"]) ^ set(expected))[:8]))
    if t.isnull().values.any():
        r, c = np.argwhere(t.isnull().values)[0]
        bad("no_missing_values", {"row": str(t["iso3"][r]), "column": t.columns[c]}, "missing value")
    num = t.select_dtypes("number")
    if not np.isfinite(num.values).all():
        bad("no_missing_values", {"what": "finite"}, "non-finite numeric cell")
    cells = 0
    for _, row in t.iterrows():
        iso = row["iso3"]
        s = [row["seasonality_m%d" % i] for i in range(1, 13)]
        if abs(sum(s) - 1) > 1e-6 or min(s) < 0 or max(s) > 1:
            bad("seasonality_sums_to_one", {"row": iso}, "%s: seasonality sums to %r" % (iso, sum(s)))
        for c in t.columns:
            v = row[c]
            cells += 1
            if c in ("iso3", "country"):
                continue
            if c.startswith(("crop_reduction_year", "grasses_reduction_year")):
                if v < -1 - 1e-9:
                    bad("reduction_not_below_minus_100_percent", {"row": iso, "column": c}, "%s %s = %r" % (iso, c, v))
            elif c.startswith(("distribution_loss_", "retail_waste_", "percent_of_global", "fraction_crop_area", "max_area_fraction", "new_area_fraction",
                               "initial_built_fraction", "initial_seaweed_fraction", "seasonality_m", "power_law_improvement")):
                if not (0 <= v <= 1):
                    bad("fraction_within_0_1", {"row": iso, "column": c}, "%s %s = %r" % (iso, c, v))
            elif v < 0:
                bad("quantity_non_negative", {"row": iso, "column": c}, "%s %s = %r" % (iso, c, v))
    return cells


def helper_product(vs, tier):
    sys.path.insert(0, common.REPO)
    from src.utilities.import_utilities import ImportUtilities as IU
    vals = (-101.0, -100.0, -50.0, 0.0, 3.0, 100.0, 1e5, 1e5 + 1, 1e11)
    grid = (0.0, 0.25, 0.5, 0.75, 1.0)
    n = 0
    outs = set()
    maxlen = 3 if tier == "quick" else 4
    for L in range(1, maxlen + 1):
        weights = [w for w in itertools.product(grid, repeat=L) if abs(sum(w) - 1) < 1e-12]
        for p in itertools.product(vals, repeat=L):
            valid = [(-100 <= x <= 1e5) for x in p]
            for w in weights:
                n += 1
                got = IU.weighted_average_percentages(list(p), list(w))
                carrying = [x for x, ok, wi in zip(p, valid, w) if ok and wi > 0]
                key = {"fn": "weighted_average_percentages", "case": repr([p, w])}
                rp = {"kind": "helper", "p": list(p), "w": list(w)}
                if not carrying:
                    if got != 9.37e36:
                        vs.append(violation("sentinel_iff_no_valid_weighted_input", key, "%s weights %s -> %r, expected the sentinel" % (p, w, got), rp))
                    outs.add("sentinel")
                    continue
                exp = sum(x * wi for x, ok, wi in zip(p, valid, w) if ok) / sum(wi for ok, wi in zip(valid, w) if ok)
                lo, hi = min(carrying), max(carrying)
                if got == 9.37e36 or not (lo - 1e-9 * max(1, abs(lo)) <= got <= hi + 1e-9 * max(1, abs(hi))):
                    vs.append(violation("average_within_valid_range", key, "%s weights %s -> %r outside [%r, %r]" % (p, w, got, lo, hi), rp))
                elif not common.close(got, exp, rel=1e-9):
                    vs.append(violation("ignores_impossible_values", key, "%s weights %s -> %r, renormalised mean of the valid inputs is %r" % (p, w, got, exp), rp))
                outs.add(round(got, 6))
            if L <= 3:
                n += 1
                got = IU.average_percentages(list(p))
                ok_vals = [x for x, ok in zip(p, valid) if ok]
                if (not ok_vals and got != 9.37e36) or (ok_vals and not common.close(got, sum(ok_vals) / len(ok_vals), rel=1e-9)):
                    vs.append(violation("ignores_impossible_values", {"fn": "average_percentages", "case": repr(p)}, "%s -> %r" % (p, got), {"kind": "helper", "p": list(p), "w": None}))
    return n, len(outs)


DEPENDENT = ("create_milk_per_animal_csv", "create_meat_per_animal_csv")      # read head_count_csv.csv written by create_head_count_csv


def run(tier, seed):
    vs = []
    from concurrent.futures import ThreadPoolExecutor
    # processed_data/ and the combined table are emptied first, so a script that silently stops writing cannot hide behind the shipped copy
    scratch = make_scratch("all", empty_processed=True)
    with ThreadPoolExecutor(common.NPROC) as ex:
        res = list(ex.map(run_script, [(s, scratch) for s in SCRIPTS if s not in DEPENDENT]))
        res += list(ex.map(run_script, [(s, scratch) for s in DEPENDENT]))
    res.append(run_script((MERGE, scratch)))
    for name, rc, tail in res:
        if rc != 0:
            vs.append(violation("import_script_runs", {"script": name}, "%s exited %d: %s" % (name, rc, tail[-300:]), {"kind": "imports"}))
    files = compare(scratch, vs)
    a, b = os.path.join(NOFT, "computer_readable_combined.csv"), os.path.join(scratch, "data", "no_food_trade", "computer_readable_combined.csv")
    if not (os.path.exists(b) and filecmp.cmp(a, b, shallow=False)):
        vs.append(violation("combined_table_reproduced", {"file": "computer_readable_combined.csv"}, "regenerated combined table differs from the shipped one", {"kind": "imports"}))
    shutil.rmtree(scratch, ignore_errors=True)
    isolated = 0
    if tier == "thorough":
        # the documented order of scripts/run_all_imports.sh, strictly sequential, from an emptied processed_data/
        sc = make_scratch("sequential", empty_processed=True)
        for name in SCRIPTS + [MERGE]:
            r = run_script((name, sc))
            isolated += 1
            if r[1] != 0:
                vs.append(violation("import_script_runs", {"script": name, "mode": "sequential"}, "%s exited %d: %s" % (name, r[1], r[2][-300:]), {"kind": "imports"}))
        compare(sc, vs)
        b = os.path.join(sc, "data", "no_food_trade", "computer_readable_combined.csv")
        if not (os.path.exists(b) and filecmp.cmp(a, b, shallow=False)):
            vs.append(violation("combined_table_reproduced", {"file": "computer_readable_combined.csv", "mode": "sequential"}, "sequential run: combined table differs", {"kind": "imports"}))
        shutil.rmtree(sc, ignore_errors=True)
    cells = check_cells(vs)
    nh, outs = helper_product(vs, tier)
    cov = {"executions": len(res) + isolated + nh, "states": cells + files + 1, "transitions": len(res) + isolated + nh,
           "traces_validated_against_impl": len(res) + isolated + nh, "distinct_outcomes": outs + files + 1,
           "import_scripts_run": len(res), "processed_tables_compared": files, "isolated_script_runs": isolated, "cells_checked": cells,
           "helper_cases": nh,
           "bound": {"scripts": "all 20 table scripts + the merge in a scratch copy of data/" + ("; plus the documented order strictly sequentially" if tier == "thorough" else ""),
                     "cells": "all 164 x 211 cells", "helper": "vectors of length <= %d over 9 values x every weight vector on the quarter grid summing to 1" % (3 if tier == "quick" else 4)},
           "alphabet": "a state is one cell / one regenerated file / one helper input; a transition one script run or helper call",
           "samples": [{"script": SCRIPTS[0]}, {"helper": [[-101.0, 3.0, 1e11], [0.25, 0.5, 0.25]]}, {"cell": ["USA", "seasonality_m1"]}],
           "caps_hit": []}
    return {"coverage": cov, "violations": vs, "assumptions": ["raw data under data/no_food_trade/raw_data is the given input; scripts are deterministic"]}


def replay(rp):
    vs = []
    if rp["kind"] == "helper":
        helper_product(vs, "thorough")
        return [v for v in vs if v["replay"].get("p") == rp["p"] and v["replay"].get("w") == rp["w"]] or vs[:1]
    if rp["kind"] == "cells":
        check_cells(vs)
        return vs
    return run("quick", 0)["violations"]
