"""C13 Scenario options mean what they say and are applied exactly once.

(i)   dispatcher: deviations(1) from valid option dictionaries - every family x every documented value,
      an unknown value, the key missing - against a reference table written from scenarios/README.md and
      the setter docstrings;
(ii)  explicit-state exploration of the exactly-once flags of a real Scenarios object: states = flag sets,
      transitions = every setter method (found by introspection);
(iii) numeric overrides: every <species>_head key x country rows and the four numeric overrides, observed at
      set_depending_on_option's return value and at the stock table that reaches the herd builder."""
import copy
import inspect
import itertools

from .. import common, options, supplies
from ..common import violation


def row_get(row, key):
    return float(row[key])


def yrs(prefix, fn):
    return {"%s%d" % (prefix, i): fn(i) for i in range(1, 11)}


# value -> constants it must set (value or callable(country_row)); None row for the world aggregate
EXPECT = {
    "stored_food": {
        "zero": {"ADD_STORED_FOOD": False, "PERCENT_STORED_FOOD_TO_USE": 0},
        "baseline": {"ADD_STORED_FOOD": True, "PERCENT_STORED_FOOD_TO_USE": 100},
    },
    "ratio_stocks_untouched": {
        "zero": {"STORE_FOOD_BETWEEN_YEARS": True, "RATIO_STOCKS_UNTOUCHED": 0},
        "baseline": {"STORE_FOOD_BETWEEN_YEARS": True, "RATIO_STOCKS_UNTOUCHED": 1},
        "no_stored_between_years": {"STORE_FOOD_BETWEEN_YEARS": False, "RATIO_STOCKS_UNTOUCHED": 0},
        "baseline_no_stored_between_years": {"STORE_FOOD_BETWEEN_YEARS": False, "RATIO_STOCKS_UNTOUCHED": 1},
    },
    "shutoff": {
        "immediate": {"FEED": 0, "BIOFUEL": 0, "T": 100},
        "one_month_delayed_shutoff": {"FEED": 1, "BIOFUEL": 1, "T": 100},
        "short_delayed_shutoff": {"FEED": 2, "BIOFUEL": 1, "T": 100},
        "long_delayed_shutoff": {"FEED": 3, "BIOFUEL": 2, "T": 100},
        "continued": {"FEED": "NMONTHS", "BIOFUEL": "NMONTHS", "T": 100},
        "continued_after_10_percent_fed": {"FEED": "NMONTHS", "BIOFUEL": "NMONTHS", "T": 10},
        "long_delayed_shutoff_after_10_percent_fed": {"FEED": 12, "BIOFUEL": 6, "T": 10},
    },
    "waste": {
        "zero": {"WASTE_RETAIL": 0, "DIST": lambda r: {k: 0 for k in ("SUGAR", "MEAT", "MILK", "SEAFOOD", "CROPS", "SEAWEED")}},
        "tripled_prices_in_country": {"WASTE_RETAIL": lambda r: r["retail_waste_price_triple"] * 100, "scale": "country"},
        "doubled_prices_in_country": {"WASTE_RETAIL": lambda r: r["retail_waste_price_double"] * 100, "scale": "country"},
        "baseline_in_country": {"WASTE_RETAIL": lambda r: r["retail_waste_baseline"] * 100, "scale": "country"},
        "tripled_prices_globally": {"WASTE_RETAIL": 6.08, "scale": "global"},
        "doubled_prices_globally": {"WASTE_RETAIL": 10.6, "scale": "global"},
        "baseline_globally": {"WASTE_RETAIL": 24.98, "scale": "global"},
    },
    "nutrition": {
        "baseline": {"NUTRITION": {"KCALS_DAILY": 2100, "FAT_DAILY": 61.7, "PROTEIN_DAILY": 59.5}},
        "catastrophe": {"NUTRITION": {"KCALS_DAILY": 2100, "FAT_DAILY": 47, "PROTEIN_DAILY": 51}},
    },
    "intake_constraints": {
        "enabled": {"MAX_SEAWEED_AS_PERCENT_KCALS_HUMANS": 10, "MAX_CELLULOSIC_SUGAR_AS_PERCENT_KCALS_HUMANS": 40,
                    "MAX_METHANE_SCP_AS_PERCENT_KCALS_HUMANS": 50},
        "disabled_for_humans": {"MAX_SEAWEED_AS_PERCENT_KCALS_HUMANS": 100, "MAX_CELLULOSIC_SUGAR_AS_PERCENT_KCALS_HUMANS": 100,
                                "MAX_METHANE_SCP_AS_PERCENT_KCALS_HUMANS": 100},
    },
    "seasonality": {
        "no_seasonality": {"SEASONALITY": lambda r: [1 / 12.0] * 12},
        "country": {"SEASONALITY": lambda r: [r["seasonality_m%d" % i] for i in range(1, 13)], "scale": "country"},
        "baseline_globally": {"SEASONALITY_SUM1": True, "scale": "global"},
        "nuclear_winter_globally": {"SEASONALITY_SUM1": True, "scale": "global"},
    },
    "grasses": {
        "baseline": yrs("RATIO_GRASSES_YEAR", lambda i: 1),
        "global_nuclear_winter": {"scale": "global", "RATIO_GRASSES_YEAR1": 0.72, "RATIO_GRASSES_YEAR5": 0.125, "RATIO_GRASSES_YEAR10": 0.41},
        "country_nuclear_winter": dict({"scale": "country"}, **{"RATIO_GRASSES_YEAR%d" % i: (lambda i: lambda r: 1 + r["grasses_reduction_year%d" % i])(i) for i in range(1, 11)}),
        "all_crops_die_instantly": dict({"scale": "country"}, **yrs("RATIO_GRASSES_YEAR", lambda i: 0)),
    },
    "fish": {
        "zero": {"FISH": "zero"}, "baseline": {"FISH": "hundred"}, "nuclear_winter": {"FISH": "nw"},
    },
    "crop_disruption": {
        "zero": dict({"ADD_OUTDOOR_GROWING": True}, **yrs("RATIO_CROPS_YEAR", lambda i: 1)),
        "global_nuclear_winter": {"scale": "global", "ADD_OUTDOOR_GROWING": True, "RATIO_CROPS_YEAR1": 1 - 0.53, "RATIO_CROPS_YEAR10": 1 - 0.17},
        "country_nuclear_winter": dict({"scale": "country", "ADD_OUTDOOR_GROWING": True},
                                       **{"RATIO_CROPS_YEAR%d" % i: (lambda i: lambda r: 1 + r["crop_reduction_year%d" % i])(i) for i in range(1, 11)}),
        "all_crops_die_instantly": dict({"ADD_OUTDOOR_GROWING": False}, **yrs("RATIO_CROPS_YEAR", lambda i: 0)),
    },
    "protein": {"not_required": {"INCLUDE_PROTEIN": False}},
    "fat": {"not_required": {"INCLUDE_FAT": False}},
    "cull": {"do_eat_culled": {"ADD_MEAT": True, "ADD_MILK": True}, "dont_eat_culled": {"ADD_MEAT": False, "ADD_MILK": False}},
    "meat_strategy": {"reduce_breeding": {"BREEDING_STRATEGY": "reduced"}, "baseline_breeding": {"BREEDING_STRATEGY": "baseline"},
                      "feed_only_ruminants": {"BREEDING_STRATEGY": "feed_only_ruminants"}},
    "scenario": {
        # (seaweed, scp, cs, greenhouse, relocation, more area)
        "no_resilient_foods": {"FOODS": (0, 0, 0, 0, 0, 0)},
        "all_resilient_foods": {"FOODS": (1, 1, 1, 1, 1, 0)},
        "all_resilient_foods_and_more_area": {"FOODS": (1, 1, 1, 1, 1, 1)},
        "seaweed": {"FOODS": (1, 0, 0, 0, 0, 0)},
        "methane_scp": {"FOODS": (0, 1, 0, 0, 0, 0)},
        "cellulosic_sugar": {"FOODS": (0, 0, 1, 0, 0, 0)},
        "industrial_foods": {"FOODS": (0, 1, 1, 0, 0, 0)},
        "relocated_crops": {"FOODS": (0, 0, 0, 0, 1, 0)},
        "greenhouse": {"FOODS": (0, 0, 0, 1, 0, 0)},
    },
}
REQUIRED = ["scale", "stored_food", "ratio_stocks_untouched", "shutoff", "waste", "nutrition", "intake_constraints", "seasonality",
            "grasses", "fish", "crop_disruption", "protein", "fat", "cull", "scenario", "meat_strategy"]


def near(a, b):
    try:
        return common.close(float(a), float(b), rel=1e-12)
    except (TypeError, ValueError):
        return a == b


def check_constants(fam, val, c, t, row, opts):
    """compare the returned constants with the reference entry; returns list of problems"""
    np = supplies._S["np"]
    exp = EXPECT[fam][val]
    out = []
    for k, want in exp.items():
        if k == "scale":
            continue
        if callable(want):
            want = want(row)
        if k in ("FEED", "BIOFUEL"):
            w = opts["NMONTHS"] if want == "NMONTHS" else want
            got = c["DELAY"]["%s_SHUTOFF_MONTHS" % k]
            if got != w:
                out.append("%s shut-off month %r, documented %r" % (k, got, w))
        elif k == "T":
            if "MINIMUM_PERCENT_FED_BEFORE_NONHUMAN_CONSUMPTION_ALLOWED" not in opts and c["MINIMUM_PERCENT_FED_BEFORE_NONHUMAN_CONSUMPTION_ALLOWED"] != want:
                out.append("threshold %r, documented %r" % (c["MINIMUM_PERCENT_FED_BEFORE_NONHUMAN_CONSUMPTION_ALLOWED"], want))
        elif k == "DIST":
            if c["WASTE_DISTRIBUTION"] != want:
                out.append("distribution waste %r" % c["WASTE_DISTRIBUTION"])
        elif k == "SEASONALITY_SUM1":
            s = c["SEASONALITY"]
            if len(s) != 12 or abs(sum(s) - 1) > 1e-3 or min(s) < 0:
                out.append("seasonality %r" % s)
        elif k == "SEASONALITY":
            if len(c[k]) != 12 or any(not near(a, b) for a, b in zip(c[k], want)):
                out.append("seasonality %r, documented %r" % (c[k], want))
        elif k == "FISH":
            f = np.asarray(t["FISH_PERCENT_MONTHLY"], dtype=float)
            n = opts["NMONTHS"]
            ok = (len(f) >= n and ((want == "zero" and (f[:n] == 0).all()) or (want == "hundred" and (f[:n] == 100).all())
                                   or (want == "nw" and f[0] == 100 and f.min() < 70 and (f <= 100).all() and (f >= 0).all())))
            if not ok:
                out.append("fish percent series %r..." % f[:14].tolist())
        elif k == "FOODS":
            sw, scp, cs, gh, rel, area = want
            got = (int(bool(c["ADD_SEAWEED"])) if not (row is not None and row["initial_seaweed_fraction"] == 0) else sw,
                   int(bool(c["ADD_METHANE_SCP"])), int(bool(c["ADD_CELLULOSIC_SUGAR"])), int(bool(c["ADD_GREENHOUSES"])),
                   int(bool(c["OG_USE_BETTER_ROTATION"])), int(c["RATIO_INCREASED_CROP_AREA"] > 1))
            if got != want:
                out.append("foods enabled (seaweed, scp, sugar, greenhouse, relocation, more area) = %r, documented %r" % (got, want))
            if (scp or cs) and c["INDUSTRIAL_FOODS_SLOPE_MULTIPLIER"] != 1:
                out.append("industrial foods slope %r" % c["INDUSTRIAL_FOODS_SLOPE_MULTIPLIER"])
        elif k in ("RATIO_STOCKS_UNTOUCHED",) and "RATIO_STOCKS_UNTOUCHED" in opts:
            continue
        elif k.startswith("RATIO_CROPS_YEAR") and "CROP_PRODUCTION_MULTIPLIER" in opts:
            if not near(c[k], want * float(opts["CROP_PRODUCTION_MULTIPLIER"])):
                out.append("%s = %r, documented %r x multiplier" % (k, c[k], want))
        elif k.startswith("RATIO_GRASSES_YEAR") and "GRASSES_PRODUCTION_MULTIPLIER" in opts:
            if not near(c[k], want * float(opts["GRASSES_PRODUCTION_MULTIPLIER"])):
                out.append("%s = %r, documented %r x multiplier" % (k, c[k], want))
        elif isinstance(want, dict):
            if c.get(k) != want:
                out.append("%s = %r, documented %r" % (k, c.get(k), want))
        elif not near(c.get(k), want):
            out.append("%s = %r, documented %r" % (k, c.get(k), want))
    return out


def dispatch(iso, opts):
    """the real dispatcher, handed the caller's dictionary itself (no protective copy), so that any write into it is observable"""
    with common.quiet():
        row = None if iso == "WOR" else supplies._S["rows"][iso]
        return supplies._S["ScenarioRunner"]().set_depending_on_option(opts, country_data=row)


def job_dispatch(job):
    iso, pn = job
    supplies.init()
    row = None if iso == "WOR" else supplies._S["rows"][iso]
    base = options.clean(options.preset(pn))
    is_global = base["scale"] == "global"
    vs = []
    n = 0
    outs = set()

    def bad(clause, tag, detail, o):
        vs.append(violation(clause, {"iso3": iso, "preset": pn, "deviation": tag}, "%s %s %s: %s" % (iso, pn, tag, detail),
                            {"kind": "dispatch", "iso3": iso, "opts": o}))

    def run(tag, o, expect_accept, fam=None, val=None):
        nonlocal n
        n += 1
        before = copy.deepcopy(o)
        try:
            c, t, loader = dispatch(iso, o)
            accepted = True
        except (AssertionError, KeyError, SystemExit, TypeError) as e:
            accepted, err = False, e
        if o != before:
            bad("options_unmodified", tag, "caller's dictionary changed: %r -> %r" % (before, o), before)
        outs.add((tag, accepted))
        if accepted != expect_accept:
            bad("accepted_iff_documented", tag, "accepted=%s, documented=%s%s" % (accepted, expect_accept, "" if accepted else " (%r)" % err), before)
            return None
        if not accepted:
            return None
        try:
            loader.check_all_set()
        except AssertionError:
            bad("all_families_applied", tag, "dispatcher returned with an option family never applied", before)
        if c["NMONTHS"] != o["NMONTHS"] or c["COUNTRY_CODE"] != iso:
            bad("sets_documented_constants", tag, "NMONTHS/COUNTRY_CODE = %r/%r" % (c["NMONTHS"], c["COUNTRY_CODE"]), before)
        # the model documents a rewrite of a few known-bad (country, option) combinations: judge against the rewritten options
        with common.quiet():
            o_eff = supplies._S["ScenarioRunner"]().alter_scenario_if_known_to_fail(dict(o), iso)
        for f2 in EXPECT:
            v2 = o_eff.get(f2)
            if v2 in EXPECT[f2]:
                for p in check_constants(f2, v2, c, t, row, o):
                    bad("sets_documented_constants", tag, "%s=%s: %s" % (f2, v2, p), before)
        return c, t

    ref = run("default", dict(base), True)
    for fam, table in EXPECT.items():
        for val, exp in table.items():
            if base.get(fam) == val:
                continue
            o = dict(base)
            o[fam] = val
            ok = exp.get("scale") in (None, "global" if is_global else "country")
            if iso == "WOR" and fam in ("waste",) and val.endswith("_in_country"):
                ok = False
            run("%s=%s" % (fam, val), o, ok, fam, val)
        o = dict(base)
        o[fam] = "no_such_value"
        run("%s=<unknown>" % fam, o, False)
    for fam in REQUIRED + ["NMONTHS"]:
        o = dict(base)
        del o[fam]
        run("%s missing" % fam, o, False)
    for v in ("required",):
        for fam in ("fat", "protein"):
            o = dict(base)
            o[fam] = v
            run("%s=%s" % (fam, v), o, False)    # documented as not working in this version: must refuse, not proceed
    o = dict(base, scale="country" if is_global else "global")
    run("scale flipped", o, False)
    # numeric overrides: exactly the named constant changes
    if ref:
        c0, t0 = ref
        singles = {}

        def same(a, b):
            if isinstance(a, (int, float)) and isinstance(b, (int, float)) and not isinstance(a, bool) and not isinstance(b, bool):
                return a == b
            return repr(a) == repr(b)
        for key, vals in options.OVERRIDES.items():
            for v in vals:
                o = dict(base)
                o[key] = v
                r = run("%s=%s" % (key, v), o, True)
                if not r:
                    continue
                c1, _ = r
                def same(a, b):
                    if isinstance(a, (int, float)) and isinstance(b, (int, float)) and not isinstance(a, bool) and not isinstance(b, bool):
                        return a == b
                    return repr(a) == repr(b)
                changed = sorted(k for k in set(c0) | set(c1) if not same(c0.get(k), c1.get(k)))
                if key == "MINIMUM_PERCENT_FED_BEFORE_NONHUMAN_CONSUMPTION_ALLOWED":
                    want = [key] if float(v) != c0[key] else []
                    good = changed == want and c1[key] == float(v)
                elif key == "RATIO_STOCKS_UNTOUCHED":
                    want = [key] if float(v) != c0[key] else []
                    good = changed == want and c1[key] == float(v)
                elif key == "CROP_PRODUCTION_MULTIPLIER":
                    want = sorted(k for k in c0 if k.startswith("RATIO_CROPS_YEAR") and c0[k] != 0)
                    good = changed == want and all(near(c1[k], c0[k] * v) for k in want)
                elif key == "GRASSES_PRODUCTION_MULTIPLIER":
                    want = sorted(k for k in c0 if k.startswith("RATIO_GRASSES_YEAR") and c0[k] != 0)
                    good = changed == want and all(near(c1[k], c0[k] * v) for k in want)
                elif key == "kg_meat_per_large_animal":
                    want = [key]
                    good = changed == want and c1[key] == float(v)
                else:
                    want = [key + "_start"]
                    good = changed == want and c1[key + "_start"] == int(v)
                if not good:
                    bad("override_changes_only_named_input", "%s=%s" % (key, v), "constants that changed: %s (expected %s)" % (changed, want), o)
                singles.setdefault(key, (v, changed, c1))
        # two overrides in one dictionary: each still changes exactly its own inputs, to the same values as when given alone
        for (k1, (v1, ch1, c1)), (k2, (v2, ch2, c2)) in itertools.combinations(sorted(singles.items()), 2):
            if set(ch1) & set(ch2):
                continue
            for order in ((k1, v1, k2, v2), (k2, v2, k1, v1)):
                o = dict(base)
                o[order[0]] = order[1]
                o[order[2]] = order[3]
                r = run("%s=%s & %s=%s" % order, o, True)
                if not r:
                    continue
                c12, _ = r
                changed = sorted(k for k in set(c0) | set(c12) if not same(c0.get(k), c12.get(k)))
                good = changed == sorted(set(ch1) | set(ch2)) and all(same(c12.get(k), c1.get(k)) for k in ch1) and all(same(c12.get(k), c2.get(k)) for k in ch2)
                if not good:
                    bad("override_changes_only_named_input", "%s=%s & %s=%s" % order,
                        "both overrides given together: constants that changed %s; given alone they change %s and %s (and to the same values)" % (changed, ch1, ch2), o)
    return {"n": n, "v": vs, "outs": len(outs)}


# ------------------------------------------------------------------ (ii) exactly-once flags

FLAG_OF = {
    "NONHUMAN_CONSUMPTION_SET": ["set_immediate_shutoff", "set_one_month_delayed_shutoff", "set_short_delayed_shutoff", "set_long_delayed_shutoff",
                                 "set_continued_feed_biofuels", "set_continued_after_10_percent_fed", "set_long_delayed_shutoff_after_10_percent_fed"],
    "MEAT_STRATEGY_SET": ["set_breeding_to_greatly_reduced", "set_to_baseline_breeding", "set_to_feed_only_ruminants"],
    "WASTE_SET": ["set_waste_to_zero", "set_global_waste_to_tripled_prices", "set_global_waste_to_doubled_prices", "set_global_waste_to_baseline_prices",
                  "set_country_waste_to_tripled_prices", "set_country_waste_to_doubled_prices", "set_country_waste_to_baseline_prices"],
    "NUTRITION_PROFILE_SET": ["set_baseline_nutrition_profile", "set_catastrophe_nutrition_profile"],
    "INTAKE_CONSTRAINTS_SET": ["set_intake_constraints_to_enabled", "set_intake_constraints_to_disabled_for_humans"],
    "STORED_FOOD_SET": ["set_no_stored_food", "set_baseline_stored_food"],
    "STORED_FOOD_END_SIM_SET": ["set_stored_food_buffer_zero", "set_no_stored_food_between_years", "set_stored_food_buffer_as_baseline",
                                "set_stored_food_buffer_as_baseline_and_no_stored_between_years"],
    "SEASONALITY_SET": ["set_no_seasonality", "set_global_seasonality_baseline", "set_global_seasonality_nuclear_winter", "set_country_seasonality"],
    "GRASSES_SET": ["set_grasses_baseline", "set_global_grasses_nuclear_winter", "set_country_grasses_nuclear_winter", "set_country_grasses_to_zero"],
    "FISH_SET": ["set_fish_zero", "set_fish_nuclear_winter_reduction", "set_fish_baseline"],
    "DISRUPTION_SET": ["set_disruption_to_crops_to_zero", "set_nuclear_winter_global_disruption_to_crops",
                       "set_nuclear_winter_country_disruption_to_crops", "set_zero_crops"],
    "PROTEIN_SET": ["include_protein", "dont_include_protein"],
    "FAT_SET": ["include_fat", "dont_include_fat"],
    "SCENARIO_SET": ["get_all_resilient_foods_scenario", "get_all_resilient_foods_and_more_area_scenario", "get_seaweed_scenario",
                     "get_methane_scp_scenario", "get_cellulosic_sugar_scenario", "get_industrial_foods_scenario",
                     "get_relocated_crops_scenario", "get_greenhouse_scenario", "get_no_resilient_food_scenario"],
    "CULLING_PARAM_SET": ["cull_animals", "dont_cull_animals"],
    "SCALE_SET": ["init_global_food_system_properties", "init_country_food_system_properties"],
    "GENERIC_INITIALIZED_SET": ["init_generic_scenario"],
}
SETTER_FLAG = {s: f for f, ss in FLAG_OF.items() for s in ss}
GLOBAL_ONLY = {"set_global_waste_to_tripled_prices", "set_global_waste_to_doubled_prices", "set_global_waste_to_baseline_prices",
               "set_global_seasonality_baseline", "set_global_seasonality_nuclear_winter", "set_global_grasses_nuclear_winter",
               "set_nuclear_winter_global_disruption_to_crops", "get_global_distribution_waste"}
COUNTRY_ONLY = {"set_country_waste_to_tripled_prices", "set_country_waste_to_doubled_prices", "set_country_waste_to_baseline_prices",
                "set_country_seasonality", "set_country_grasses_nuclear_winter", "set_country_grasses_to_zero",
                "set_nuclear_winter_country_disruption_to_crops", "get_distribution_waste"}
NEEDS_STORE_KEY = {"set_continued_feed_biofuels", "set_continued_after_10_percent_fed", "set_long_delayed_shutoff_after_10_percent_fed"}
HELPERS = {"no_resilient_foods", "seaweed", "greenhouse", "relocated_outdoor_crops", "expanded_area_and_relocated_outdoor_crops",
           "methane_scp", "cellulosic_sugar", "get_global_distribution_waste", "get_distribution_waste", "check_all_set"}
FLAGS = sorted(FLAG_OF)


def flags_of(loader):
    return frozenset(f for f in FLAGS if getattr(loader, f))


def setters(Scenarios):
    out = []
    for name, fn in inspect.getmembers(Scenarios, predicate=inspect.isfunction):
        if name.startswith("_") or name in HELPERS:
            continue
        out.append((name, list(inspect.signature(fn).parameters)[1:]))
    return out


def call_setter(loader, name, params, c, t, row):
    args = []
    for p in params:
        if p == "constants_for_params":
            args.append(c)
        elif p in ("time_consts", "time_consts_for_params"):
            args.append(t)
        elif p == "country_data":
            args.append(row)
        else:
            raise RuntimeError("unknown setter parameter %s.%s" % (name, p))
    return getattr(loader, name)(*args)


def root(scale, row):
    from src.scenarios.scenarios import Scenarios
    loader = Scenarios()
    with common.quiet():
        c = loader.init_global_food_system_properties() if scale == "global" else loader.init_country_food_system_properties(row)
    c["NMONTHS"] = 120
    c["COUNTRY_CODE"] = "WOR" if scale == "global" else row["iso3"]
    return loader, c, {}


def try_transition(state, name, params, row, scale, hist, vs, stats):
    """state = (loader, c, t) (not modified); returns the successor state or None"""
    loader, c, t = copy.deepcopy(state)
    c_before, t_before = copy.deepcopy(c), copy.deepcopy(t)
    f_before = flags_of(loader)
    flag = SETTER_FLAG.get(name)
    is_global = scale == "global"
    expect = flag is not None and flag not in f_before
    if name in GLOBAL_ONLY and not is_global or name in COUNTRY_ONLY and is_global:
        expect = False
    if name in NEEDS_STORE_KEY and "STORE_FOOD_BETWEEN_YEARS" not in c:
        expect = False
    if name == "init_generic_scenario":
        expect = False     # already initialised by the scale setter at the root
    stats["transitions"] += 1
    key = {"scale": scale, "setter": name, "flags_before": sorted(f_before)}
    rp = {"kind": "flags", "scale": scale, "history": hist + [name]}
    try:
        with common.quiet():
            call_setter(loader, name, params, c, t, None if is_global else row)
        accepted = True
    except (AssertionError, KeyError, TypeError) as e:
        accepted = False
    f_after = flags_of(loader)
    if flag is None:
        vs.append(violation("unknown_setter", key, "setter %s is not in the reference table (new option family?)" % name, rp))
        return None
    if accepted != expect:
        vs.append(violation("applied_exactly_once", key, "after %s: %s %s (flags set: %s)" % (
            hist, name, "accepted although its family was already applied or it does not fit the scale" if accepted else "rejected although its family is still unset",
            sorted(f_before)), rp))
        return None
    if not accepted:
        stats["rejections"] += 1
        if f_after != f_before or repr(c) != repr(c_before) or repr(t) != repr(t_before):
            vs.append(violation("rejection_leaves_state_unchanged", key, "after %s: rejected %s changed flags/constants (%s -> %s)" % (
                hist, name, sorted(f_before), sorted(f_after)), rp))
        return None
    if f_after != f_before | {flag}:
        vs.append(violation("sets_exactly_its_flag", key, "after %s: %s changed flags %s -> %s (its family flag is %s)" % (
            hist, name, sorted(f_before), sorted(f_after), flag), rp))
        return None
    return loader, c, t


def explore_flags(scale, iso, depth, shard=None):
    """BFS over flag sets from the root; canonical state = (flag set, scale, presence of STORE_FOOD_BETWEEN_YEARS).
    depth=None explores every reachable flag set."""
    supplies.init()
    from src.scenarios.scenarios import Scenarios
    row = None if scale == "global" else supplies._S["rows"][iso]
    S = setters(Scenarios)
    vs, stats = [], {"transitions": 0, "rejections": 0}
    r = root(scale, row)
    seen = {(flags_of(r[0]), "STORE_FOOD_BETWEEN_YEARS" in r[1]): []}
    frontier = [([], r)]
    level = 0
    while frontier and (depth is None or level < depth):
        level += 1
        nxt = []
        for i, (hist, st) in enumerate(frontier):
            if shard is not None and level > 1 and i % shard[1] != shard[0]:
                continue
            for name, params in S:
                succ = try_transition(st, name, params, row, scale, hist, vs, stats)
                if succ is not None:
                    k = (flags_of(succ[0]), "STORE_FOOD_BETWEEN_YEARS" in succ[1])
                    if k not in seen:
                        seen[k] = hist + [name]
                        nxt.append((hist + [name], succ))
        frontier = nxt
    return {"v": vs[:40], "nv": len(vs), "states": len(seen), "transitions": stats["transitions"], "rejections": stats["rejections"],
            "setters": len(S), "levels": level}


CANONICAL = {  # one setter per family used to *reach* a flag set (which one is irrelevant to every guard)
    "NONHUMAN_CONSUMPTION_SET": "set_immediate_shutoff", "MEAT_STRATEGY_SET": "set_to_baseline_breeding", "WASTE_SET": "set_waste_to_zero",
    "NUTRITION_PROFILE_SET": "set_baseline_nutrition_profile", "INTAKE_CONSTRAINTS_SET": "set_intake_constraints_to_enabled",
    "STORED_FOOD_SET": "set_baseline_stored_food", "STORED_FOOD_END_SIM_SET": "set_stored_food_buffer_zero",
    "SEASONALITY_SET": "set_no_seasonality", "GRASSES_SET": "set_grasses_baseline", "FISH_SET": "set_fish_baseline",
    "DISRUPTION_SET": "set_disruption_to_crops_to_zero", "PROTEIN_SET": "dont_include_protein", "FAT_SET": "dont_include_fat",
    "SCENARIO_SET": "get_no_resilient_food_scenario", "CULLING_PARAM_SET": "cull_animals",
}


def explore_all_flag_sets(scale, iso, shard):
    """every subset of the 15 option families as a state (reached with one canonical setter per family), every setter as
    a transition from it"""
    supplies.init()
    from src.scenarios.scenarios import Scenarios
    row = None if scale == "global" else supplies._S["rows"][iso]
    S = setters(Scenarios)
    sig = dict(S)
    fams = sorted(CANONICAL)
    vs, stats = [], {"transitions": 0, "rejections": 0}
    nstates = 0
    r0 = root(scale, row)
    for idx in range(shard[0], 2 ** len(fams), shard[1]):
        sub = [f for i, f in enumerate(fams) if idx >> i & 1]
        st = copy.deepcopy(r0)
        hist = []
        for f in sub:
            name = CANONICAL[f]
            with common.quiet():
                call_setter(st[0], name, sig[name], st[1], st[2], row)
            hist.append(name)
        if flags_of(st[0]) != frozenset(sub) | {"SCALE_SET", "GENERIC_INITIALIZED_SET"}:
            vs.append(violation("sets_exactly_its_flag", {"scale": scale, "setter": "canonical path", "flags_before": sub},
                                "canonical setters %s produced flags %s" % (hist, sorted(flags_of(st[0]))), {"kind": "flags", "scale": scale, "history": hist}))
            continue
        nstates += 1
        for name, params in S:
            try_transition(st, name, params, row, scale, hist, vs, stats)
    return {"v": vs[:40], "nv": len(vs), "states": nstates, "transitions": stats["transitions"], "rejections": stats["rejections"],
            "setters": len(S), "levels": len(fams)}


def job_flags(job):
    scale, iso, depth, shard = job
    if depth is None:
        return explore_all_flag_sets(scale, iso, shard)
    return explore_flags(scale, iso, depth, shard)


# ------------------------------------------------------------------ (iii) head-count overrides reach the herd builder

SPECIES = ["chicken", "rabbit", "duck", "goose", "turkey", "other_rodents", "pig", "meat_goat", "meat_sheep", "camelids", "meat_cattle",
           "meat_camel", "meat_buffalo", "mule", "horse", "asses", "milk_sheep", "milk_cattle", "milk_goat", "milk_camel", "milk_buffalo"]


def job_heads(iso):
    supplies.init()
    np = supplies._S["np"]
    from src.food_system import animal_populations as ap
    from src.food_system.food import Food
    seen = {}
    orig = ap.AnimalModelBuilder.create_animal_objects

    def spy(stock, attrs):
        seen["stock"] = stock.copy()
        return orig(stock, attrs)
    ap.AnimalModelBuilder.create_animal_objects = spy
    base = options.clean(options.preset("ms_example"))
    vs = []
    n = 0
    try:
        def stock_for(opts):
            c, t, _ = dispatch(iso, opts)
            z = Food(np.zeros(2), np.zeros(2), np.zeros(2), "billion kcals each month", "thousand tons each month", "thousand tons each month")
            with common.quiet():
                ap.main(iso, z, z, c["BREEDING_STRATEGY"], c, remove_first_month=0)
            return seen["stock"], c
        s0, _ = stock_for(base)
        for sp in SPECIES:
            col = sp + "_head"
            value = int(float(s0[col])) + 12345
            n += 1
            o = dict(base)
            o[col] = value
            try:
                s1, c1 = stock_for(o)
            except Exception as e:
                vs.append(violation("head_override_reaches_named_cell", {"iso3": iso, "species": sp},
                                    "%s: option %s=%d makes the herd model fail: %r" % (iso, col, value, e), {"kind": "heads", "iso3": iso}))
                continue
            changed = sorted(k for k in set(s0.index) | set(s1.index) if not (k in s0.index and k in s1.index and repr(s0[k]) == repr(s1[k])))
            if changed != [col] or float(s1[col]) != value:
                vs.append(violation("head_override_reaches_named_cell", {"iso3": iso, "species": sp},
                                    "%s: option %s=%d -> stock table cells changed: %s (expected only %s)" % (iso, col, value, changed, col),
                                    {"kind": "heads", "iso3": iso}))
        # two overrides in one option dictionary, in both insertion orders and with different values: each must reach its own cell
        # (every ordered pair over a 6-species menu that mixes alphabetical and table order)
        menu = ["pig", "chicken", "milk_cattle", "asses", "turkey", "meat_cattle"]
        for a, b in itertools.permutations(menu, 2):
            n += 1
            o = dict(base)
            va, vb = int(float(s0[a + "_head"])) + 1111, int(float(s0[b + "_head"])) + 2222
            o[a + "_head"] = va
            o[b + "_head"] = vb
            try:
                s1, c1 = stock_for(o)
            except Exception as e:
                vs.append(violation("head_override_reaches_named_cell", {"iso3": iso, "species": a + "+" + b},
                                    "%s: options %s_head, %s_head make the herd model fail: %r" % (iso, a, b, e), {"kind": "heads", "iso3": iso}))
                continue
            changed = sorted(k for k in set(s0.index) | set(s1.index) if not (k in s0.index and k in s1.index and repr(s0[k]) == repr(s1[k])))
            if changed != sorted([a + "_head", b + "_head"]) or float(s1[a + "_head"]) != va or float(s1[b + "_head"]) != vb:
                vs.append(violation("head_override_reaches_named_cell", {"iso3": iso, "species": a + "+" + b},
                                    "%s: options {%s_head: %d, %s_head: %d} (in this order) -> herd model reads %s_head=%r, %s_head=%r; cells changed: %s" % (
                                        iso, a, va, b, vb, a, float(s1[a + "_head"]), b, float(s1[b + "_head"]), changed), {"kind": "heads", "iso3": iso}))
        # the override must reach EVERY herd-model evaluation of a complete run (one per round), not only the first
        from src.scenarios.run_model_no_trade import ScenarioRunnerNoTrade
        calls = []

        def spy_all(stock, attrs):
            calls.append(stock.copy())
            return orig(stock, attrs)
        ap.AnimalModelBuilder.create_animal_objects = spy_all
        for sp in ("chicken", "meat_cattle"):
            col = sp + "_head"
            value = int(float(s0[col])) // 3 + 777
            o = options.clean(options.preset("yaml_net_baseline"))
            o["NMONTHS"] = 48
            o[col] = value
            del calls[:]
            n += 1
            try:
                with common.quiet():
                    ScenarioRunnerNoTrade().run_model_no_trade(title="c13_full_%s" % iso, create_pptx_with_all_countries=False, show_country_figures=False,
                                                               show_map_figures=False, add_map_slide_to_pptx=False, scenario_option=o,
                                                               countries_list=[iso], return_results=True)
            except Exception as e:
                vs.append(violation("head_override_reaches_named_cell", {"iso3": iso, "species": sp, "run": "complete"},
                                    "%s: complete run with %s=%d fails: %r" % (iso, col, value, e), {"kind": "heads", "iso3": iso}))
                continue
            seen_vals = [float(c[col]) for c in calls]
            if not calls or any(v != value for v in seen_vals):
                vs.append(violation("head_override_reaches_named_cell", {"iso3": iso, "species": sp, "run": "complete"},
                                    "%s: complete run with %s=%d: the %d herd-model evaluations of the run started from %s" % (iso, col, value, len(calls), seen_vals),
                                    {"kind": "heads", "iso3": iso}))
    finally:
        ap.AnimalModelBuilder.create_animal_objects = orig
    return {"n": n, "v": vs}


def run(tier, seed):
    supplies.init()
    isos = options.countries()
    fixed = ["USA", "IND", "SLV", "ECU"]
    sel = fixed + common.rotate([i for i in isos if i not in fixed], seed, 2 if tier == "quick" else 12)
    djobs = [(iso, pn) for iso in sel for pn in ("ms_example_resilient", "yaml_net_baseline")] + [("WOR", "g_example_resilient"), ("WOR", "g_baseline")]
    dres = common.pmap(job_dispatch, djobs, init_fn=supplies.init, chunksize=1)
    if tier == "quick":
        fjobs = [("country", "USA", 2, None), ("global", "WOR", 2, None)]
    else:
        fjobs = [(sc, iso, None, (i, 16)) for sc, iso in (("country", "USA"), ("global", "WOR")) for i in range(16)]
    fres = common.pmap(job_flags, fjobs, init_fn=supplies.init, chunksize=1)
    hres = common.pmap(job_heads, ["USA", "IND", "SWT"] if tier == "quick" else ["USA", "IND", "AFG", "CHN", "BRA", "LUX", "SWT"], init_fn=supplies.init, chunksize=1)
    vs = [v for r in dres + fres + hres for v in r["v"]]
    nd = sum(r["n"] for r in dres)
    nh = sum(r["n"] for r in hres)
    tr = sum(r["transitions"] for r in fres)
    states = sum(r["states"] for r in fres)
    cov = {"executions": nd + nh + tr, "states": states + nd, "transitions": tr + nd + nh, "traces_validated_against_impl": nd + nh + tr,
           "distinct_outcomes": sum(r["outs"] for r in dres) + states,
           "dispatcher_calls": nd, "flag_machine": {"states (flag sets)": states, "transitions (setter calls)": tr,
                                                    "rejections": sum(r["rejections"] for r in fres), "setters": fres[0]["setters"],
                                                    "levels": [r["levels"] for r in fres]},
           "head_override_runs": nh,
           "bound": {"dispatcher": "deviations(1) incl. unknown value and missing key from 2 presets x %d countries + 2 global presets" % len(sel),
                     "flags": "every ordered pair of setters from each root (quick); breadth-first over every reachable flag set x every setter (thorough)",
                     "heads": "every one of the 21 species columns x %d countries" % len(hres)},
           "alphabet": "a state of the flag machine is (set of *_SET flags, scale, presence of STORE_FOOD_BETWEEN_YEARS); sound because each setter's guard reads only its own flag, the scale and that key",
           "samples": [{"iso3": "USA", "preset": "ms_example_resilient", "deviation": "shutoff=<unknown>"},
                       {"scale": "country", "history": ["set_waste_to_zero", "set_country_waste_to_doubled_prices"]},
                       {"iso3": "USA", "override": "rabbit_head"}],
           "caps_hit": []}
    return {"coverage": cov, "violations": vs, "assumptions": ["reference table of option values written from scenarios/README.md and the setter docstrings"]}


def replay(rp):
    supplies.init()
    if rp["kind"] == "dispatch":
        iso = rp["iso3"]
        o = rp["opts"]
        pn = None
        for name in list(options.PRESETS) + list(options.GLOBAL_PRESETS):
            pass
        # re-run the whole deviation layer for that country and return violations with the same deviation
        out = []
        for pn in (("g_example_resilient", "g_baseline") if iso == "WOR" else ("ms_example_resilient", "yaml_net_baseline")):
            out.extend(job_dispatch((iso, pn))["v"])
        return out
    if rp["kind"] == "flags":
        r = explore_flags(rp["scale"], "WOR" if rp["scale"] == "global" else "USA", len(rp["history"]))
        return r["v"]
    return job_heads(rp["iso3"])["v"]
