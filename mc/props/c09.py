"""C09 Cropland is neither double-counted nor lost between crops and greenhouses.
Same executions as C08 restricted to the crop/greenhouse families, plus differential pairs
(relocated vs not, expanded vs not) on every country."""
from .. import common, options, supplies
from ..common import violation
from . import c08

PAIRS = (("no_resilient_foods", "relocated_crops", "relocation"),
         ("greenhouse", "all_resilient_foods", "relocation_under_greenhouses"),
         ("all_resilient_foods", "all_resilient_foods_and_more_area", "expansion"))


def job_pair(job):
    iso, h, climate = job
    np = supplies._S["np"]
    base = options.clean(options.preset("ms_example_resilient"))
    base["NMONTHS"] = h
    base["crop_disruption"] = climate
    out = {"v": [], "n": 0, "states": 0}
    series = {}
    for sc in {p for pr in PAIRS for p in pr[:2]}:
        try:
            c, t, o, _ = supplies.first_round(iso, dict(base, scenario=sc))
        except Exception as e:
            return {"error": "%s %s %r" % (iso, sc, e)}
        series[sc] = np.asarray(o[1]["outdoor_crops"].production.kcals, dtype=float)
        out["n"] += 1
    for lo, hi, what in PAIRS:
        a, b = series[lo], series[hi]
        out["states"] += len(a)
        bad = np.where(b < a - 1e-9 * np.maximum(1.0, np.abs(a)))[0]
        if len(bad):
            m = int(bad[0])
            out["v"].append(violation("never_lowers_" + what, {"iso3": iso, "NMONTHS": h, "crop_disruption": climate, "pair": [lo, hi]},
                                      "%s month %d: %s gives %r < %s gives %r (%d months)" % (iso, m, hi, float(b[m]), lo, float(a[m]), len(bad)),
                                      {"kind": "pair", "iso3": iso, "NMONTHS": h, "crop_disruption": climate}))
    return out


def run(tier, seed):
    cov, vs, errors = c08.explore("C09", tier, seed)
    isos = options.countries()
    sel = isos if tier == "thorough" else ["USA", "BRB", "LUX", "IND"] + common.rotate(isos, seed, 30)
    jobs = [(iso, h, cl) for iso in sel for h in ((48, 120) if tier == "quick" else options.MENUS["NMONTHS"])
            for cl in ("country_nuclear_winter", "zero")]
    res = common.pmap(job_pair, jobs, init_fn=supplies.init)
    errors += [r["error"] for r in res if "error" in r]
    for r in res:
        if "v" in r:
            vs.extend(r["v"])
            cov["executions"] += r["n"]
            cov["states"] += r["states"]
            cov["transitions"] += r["states"]
            cov["traces_validated_against_impl"] += r["n"]
    cov["differential_pairs"] = {"countries": len(sel), "pairs": [list(p) for p in PAIRS], "jobs": len(jobs)}
    cov["oracle"] = ("outdoor[m] == grown[m] x (1 - greenhouse_area[m]/cropland) x (1 - waste) with grown recomputed from the documentation; "
                     "greenhouse area zero through delay+5 months, monotone, <= configured share; relocated >= not relocated and "
                     "expanded >= not expanded month by month; baseline x 1e-3 scales every month by 1e-3 (no quantisation)")
    if errors:
        raise RuntimeError("executions raised: %s" % errors[:2])
    return {"coverage": cov, "violations": vs, "assumptions": ["cropland total = INITIAL_GLOBAL_CROP_AREA x country fraction"]}


def replay(rp):
    supplies.init()
    if rp.get("kind") == "pair":
        return job_pair((rp["iso3"], rp["NMONTHS"], rp["crop_disruption"]))["v"]
    return c08.replay(rp, "C09")
