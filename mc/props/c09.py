"""C09 Cropland is neither double-counted nor lost between crops and greenhouses.
Same executions as C08 restricted to the crop/greenhouse families, plus differential pairs
(relocated vs not, expanded vs not) on every country."""
from .. import common, options, supplies
from ..common import violation
from . import c08

PAIRS = (("no_resilient_foods", "relocated_crops", "relocation"),
         ("greenhouse", "all_resilient_foods", "relocation_under_greenhouses"),
         ("all_resilient_foods", "all_resilient_foods_and_more_area", "expansion"))


def job_pair(job):
    iso, h, climate = job
    np = supplies._S["np"]
    base = options.clean(options.preset("ms_example_resilient"))
    base["NMONTHS"] = h
    base["crop_disruption"] = climate
    out = {"v": [], "n": 0, "states": 0}
    series = {}
    for sc in {p for pr in PAIRS for p in pr[:2]}:
        try:
            c, t, o, _ = supplies.first_round(iso, dict(base, scenario=sc))
        except Exception as e:
            return {"error": "%s %s %r" % (iso, sc, e)}
        series[sc] = np.asarray(o[1]["outdoor_crops"].production.kcals, dtype=float)
        out["n"] += 1
    for lo, hi, what in PAIRS:
        a, b = series[lo], series[hi]
        out["states"] += len(a)
        bad = np.where(b < a - 1e-9 * np.maximum(1.0, np.abs(a)))[0]
        if len(bad):
            m = int(bad[0])
            out["v"].append(violation("never_lowers_" + what, {"iso3": iso, "NMONTHS": h, "crop_disruption": climate, "pair": [lo, hi]},
                                      "%s month %d: %s gives %r < %s gives %r (%d months)" % (iso, m, hi, float(b[m]), lo, float(a[m]), len(bad)),
                                      {"kind": "pair", "iso3": iso, "NMONTHS": h, "crop_disruption": climate}))
    return out


def job_fraction_types(job):
    """the greenhouse share handed to OutdoorCrops.set_crop_production_minus_greenhouse_area in every numeric array/list type a
    caller may legally use (the repository's own idiom for "no greenhouses" is an integer array of zeros): the output must not
    depend on the container or element type of the argument, and must not be quantised by it"""
    reloc, baseline, h = job
    import copy
    np = supplies._S["np"]
    c0, t0 = c08.base_constants()
    c = copy.deepcopy(c0)
    c.update(BASELINE_CROP_KCALS=np.float64(baseline), NMONTHS=h, OG_USE_BETTER_ROTATION=reloc, ADD_GREENHOUSES=False, STARTING_MONTH_NUM=5)
    out = {"v": [], "n": 0, "states": 0}
    key = {"direct": "fraction types reloc=%s baseline=%s h=%d" % (reloc, baseline, h)}
    rp = {"kind": "fraction_types", "reloc": reloc, "baseline": baseline, "NMONTHS": h}

    def produce(frac):
        with common.quiet():
            oc = supplies._S["OutdoorCrops"](c)
            oc.calculate_rotation_ratios(c)
            oc.calculate_monthly_production(c)
            oc.set_crop_production_minus_greenhouse_area(c, frac)
        return np.asarray(oc.production.kcals, dtype=float)
    variants = {"float64 zeros": np.zeros(h), "integer zeros (np.array([0] * n))": np.array([0] * h), "float64 share 0.25": np.full(h, 0.25),
                "float32 share 0.25": np.full(h, 0.25, dtype=np.float32), "int8 zeros": np.zeros(h, dtype=np.int8)}
    try:
        ref0, ref25 = produce(variants["float64 zeros"]), produce(variants["float64 share 0.25"])
        for name, frac in variants.items():
            out["n"] += 1
            out["states"] += h
            got = produce(frac)
            want = ref25 if "0.25" in name else ref0
            if not np.allclose(got, want, rtol=1e-6, atol=0):
                m = int(np.argmax(np.abs(got - want)))
                out["v"].append(violation("no_quantisation", dict(key, fraction=name), "greenhouse share passed as %s: month %d output %r, the same share as float64 gives %r" % (name, m, float(got[m]), float(want[m])), rp))
    except Exception as e:
        import traceback
        return {"error": "%s: %r %s" % (key, e, traceback.format_exc()[-300:])}
    return out


def job_sequences(job):
    """operation sequences on ONE OutdoorCrops object: every sequence (length <= depth) of greenhouse-share schedules handed to
    set_crop_production_minus_greenhouse_area one after the other.  After every call the output must equal what a fresh object gives
    for that schedule alone (the call is a function of the amount grown and the schedule, not of earlier calls), the amount grown kept
    on the object (KCALS_GROWN, NO_RELOCATION_KCALS_GROWN) must be what it was before the first call, the caller's schedule must be
    unmodified, and the zero schedule never gives less than a non-zero one."""
    reloc, ratio, h, depth = job
    import copy
    import itertools
    np = supplies._S["np"]
    c0, t0 = c08.base_constants()
    c = copy.deepcopy(c0)
    c.update(NMONTHS=h, OG_USE_BETTER_ROTATION=reloc, RATIO_INCREASED_CROP_AREA=ratio, NUMBER_YEARS_TAKES_TO_REACH_INCREASED_AREA=3, STARTING_MONTH_NUM=5)
    out = {"v": [], "n": 0, "states": 0}
    ramp = np.minimum(0.2, np.maximum(0.0, (np.arange(h) - 7) * 0.01))
    menu = {"zero": np.zeros(h), "ramp to 0.2": ramp, "flat 0.1": np.full(h, 0.1)}

    def fresh():
        with common.quiet():
            oc = supplies._S["OutdoorCrops"](c)
            oc.calculate_rotation_ratios(c)
            oc.calculate_monthly_production(c)
        return oc
    try:
        alone = {}
        for name, frac in menu.items():
            oc = fresh()
            with common.quiet():
                oc.set_crop_production_minus_greenhouse_area(c, copy.deepcopy(frac))
            alone[name] = np.asarray(oc.production.kcals, dtype=float).copy()
        for seq in itertools.chain.from_iterable(itertools.product(menu, repeat=d) for d in range(1, depth + 1)):
            oc = fresh()
            grown0 = np.asarray(oc.KCALS_GROWN, dtype=float).copy()
            noreloc0 = np.asarray(getattr(oc, "NO_RELOCATION_KCALS_GROWN", []), dtype=float).copy()
            key = {"direct": "call sequence reloc=%s area ratio=%s h=%d" % (reloc, ratio, h), "sequence": list(seq)}
            rp = {"kind": "sequences", "reloc": reloc, "ratio": ratio, "NMONTHS": h, "depth": depth}
            out["n"] += 1
            for k, name in enumerate(seq):
                arg = copy.deepcopy(menu[name])
                with common.quiet():
                    oc.set_crop_production_minus_greenhouse_area(c, arg)
                got = np.asarray(oc.production.kcals, dtype=float)
                out["states"] += h
                if not np.allclose(got, alone[name], rtol=1e-9, atol=0):
                    m = int(np.argmax(np.abs(got - alone[name])))
                    out["v"].append(violation("output_independent_of_earlier_calls", key, "call %d (%s) on the same object: month %d output %r, a fresh object gives %r" % (k + 1, name, m, float(got[m]), float(alone[name][m])), rp))
                    break
                if not np.array_equal(np.asarray(arg, dtype=float), np.asarray(menu[name], dtype=float)):
                    out["v"].append(violation("schedule_unmodified", key, "call %d modified the caller's greenhouse share schedule (%s)" % (k + 1, name), rp))
                    break
                g = np.asarray(oc.KCALS_GROWN, dtype=float)
                nr = np.asarray(getattr(oc, "NO_RELOCATION_KCALS_GROWN", []), dtype=float)
                if g.shape != grown0.shape or not np.array_equal(g, grown0) or nr.shape != noreloc0.shape or not np.array_equal(nr, noreloc0):
                    which = "KCALS_GROWN" if (g.shape != grown0.shape or not np.array_equal(g, grown0)) else "NO_RELOCATION_KCALS_GROWN"
                    out["v"].append(violation("amount_grown_unmodified", key, "call %d (%s) changed the amount grown kept on the object (%s)" % (k + 1, name, which), rp))
                    break
                if np.any(got > alone["zero"] * (1 + 1e-9) + 1e-12):
                    out["v"].append(violation("greenhouses_never_add_outdoor_output", key, "call %d (%s): output above the zero-greenhouse output" % (k + 1, name), rp))
                    break
    except Exception as e:
        import traceback
        return {"error": "sequences %r: %r %s" % (job, e, traceback.format_exc()[-300:])}
    return out


def run(tier, seed):
    cov, vs, errors = c08.explore("C09", tier, seed)
    sjobs = [(reloc, ratio, h, 2 if tier == "quick" else 3) for reloc in (False, True) for ratio in (1, 1.5, 3.0) for h in ((48,) if tier == "quick" else (48, 84, 120))]
    sres = common.pmap(job_sequences, sjobs, init_fn=supplies.init, chunksize=1)
    errors = errors + [r["error"] for r in sres if "error" in r]
    for r in sres:
        if "v" in r:
            vs.extend(r["v"])
            cov["executions"] += r["n"]
            cov["states"] += r["states"]
            cov["transitions"] += r["states"]
            cov["traces_validated_against_impl"] += r["n"]
    cov["call_sequences"] = {"jobs": len(sjobs), "schedules": ["zero", "ramp to 0.2", "flat 0.1"], "depth": 2 if tier == "quick" else 3,
                             "configurations": "relocation on/off x cropland ratio 1 / 1.5 / 3 x horizon", "sequences": sum(r.get("n", 0) for r in sres)}
    tjobs = [(reloc, b, h) for reloc in (False, True) for b in (0.37e6 * 1e-6, 0.37e6, 5e8) for h in ((48,) if tier == "quick" else (48, 84, 120))]
    tres = common.pmap(job_fraction_types, tjobs, init_fn=supplies.init, chunksize=1)
    errors = errors + [r["error"] for r in tres if "error" in r]
    for r in tres:
        if "v" in r:
            vs.extend(r["v"])
            cov["executions"] += r["n"]
            cov["states"] += r["states"]
            cov["transitions"] += r["states"]
            cov["traces_validated_against_impl"] += r["n"]
    cov["fraction_argument_types"] = {"jobs": len(tjobs), "types": ["float64", "integer zeros", "float32", "int8"]}
    isos = options.countries()
    sel = isos if tier == "thorough" else ["USA", "BRB", "LUX", "IND"] + common.rotate(isos, seed, 30)
    jobs = [(iso, h, cl) for iso in sel for h in ((48, 120) if tier == "quick" else options.MENUS["NMONTHS"])
            for cl in ("country_nuclear_winter", "zero")]
    res = common.pmap(job_pair, jobs, init_fn=supplies.init)
    errors += [r["error"] for r in res if "error" in r]
    for r in res:
        if "v" in r:
            vs.extend(r["v"])
            cov["executions"] += r["n"]
            cov["states"] += r["states"]
            cov["transitions"] += r["states"]
            cov["traces_validated_against_impl"] += r["n"]
    cov["differential_pairs"] = {"countries": len(sel), "pairs": [list(p) for p in PAIRS], "jobs": len(jobs)}
    cov["oracle"] = ("outdoor[m] == grown[m] x (1 - greenhouse_area[m]/cropland) x (1 - waste) with grown recomputed from the documentation; "
                     "greenhouse area zero through delay+5 months, monotone, <= configured share; relocated >= not relocated and "
                     "expanded >= not expanded month by month; baseline x 1e-3 scales every month by 1e-3 (no quantisation)")
    if errors:
        raise RuntimeError("executions raised: %s" % errors[:2])
    return {"coverage": cov, "violations": vs, "assumptions": ["cropland total = INITIAL_GLOBAL_CROP_AREA x country fraction"]}


def replay(rp):
    supplies.init()
    if rp.get("kind") == "fraction_types":
        return job_fraction_types((rp["reloc"], rp["baseline"], rp["NMONTHS"])).get("v", [])
    if rp.get("kind") == "sequences":
        return job_sequences((rp["reloc"], rp["ratio"], rp["NMONTHS"], rp["depth"])).get("v", [])
    if rp.get("kind") == "pair":
        return job_pair((rp["iso3"], rp["NMONTHS"], rp["crop_disruption"]))["v"]
    return c08.replay(rp, "C09")
