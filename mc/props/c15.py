"""C15 Aggregate fed fraction is a capped, population-weighted mean of the selection.

run_model_no_trade driven with the per-country computation replaced at the seam run_optimizer_for_country by a
deterministic stand-in; every selection pattern (absent / named / '!'-named per country) over a 4-country universe
x 5 fraction tables (two of them with failing countries); the same oracle on real, unstubbed runs as conformance of the stand-in."""
import itertools
import os

from .. import common, options, supplies
from ..common import violation

UNIVERSE = ["USA", "LUX", "SWT", "IND"]
FRACTIONS = (0.0, 0.3, 1.0, 1.7)


class _Stub:
    def __init__(self, f):
        self.percent_people_fed = f * 100


def fraction_for(iso_index, table):
    """tables 0-2: every country answers; tables 3-4: some countries report a failed run (NaN), which the runner lists
    under "Failed Countries" and must leave out of the population, the fed population and the results alike"""
    if table >= 3:
        if (iso_index + table) % 3 == 0:
            return float("nan")
        return FRACTIONS[(iso_index + table) % 4]
    return FRACTIONS[(iso_index * (table + 1) + table) % 4]


def expected_selection(all_isos, lst):
    if not lst:
        return list(all_isos)
    if all("!" in c for c in lst):
        skip = {c.replace("!", "") for c in lst}
        return [i for i in all_isos if i not in skip]
    named = [c for c in lst if "!" not in c]
    return [i for i in all_isos if i in named]


def check_call(Runner, tab, lst, table, real=False, save=False, popov=None):
    np = supplies._S["np"]
    isos = list(tab["iso3"])
    idx = {iso: i for i, iso in enumerate(isos)}
    calls = []
    modelled_pop = {}
    r = Runner()
    if not real:
        def stand_in(country_data, scenario_option, *a, **k):
            iso = country_data["iso3"]
            calls.append(iso)
            modelled_pop[iso] = float(country_data["population"])
            f = fraction_for(idx[iso], table)
            return f, "stand-in", _Stub(f)
        r.run_optimizer_for_country = stand_in
    else:
        orig = r.run_optimizer_for_country

        def spy(country_data, scenario_option, *a, **k):
            out = orig(country_data, scenario_option, *a, **k)
            calls.append((country_data["iso3"], out[0]))
            return out
        r.run_optimizer_for_country = spy
    opts = options.clean(options.preset("ms_example_resilient"))
    if popov is not None:
        opts["population"] = popov          # a documented custom parameter: overrides the table's column for every country of the run
    shared = list(lst)          # ONE list object for both calls, as a YAML file with several simulations passes it
    with common.quiet():
        if not real:
            # a first call with the same list object: the selection of the second call (judged below) must not depend on it
            r.run_model_no_trade(title="c15", create_pptx_with_all_countries=False, show_country_figures=False, show_map_figures=False,
                                 add_map_slide_to_pptx=False, scenario_option=opts, countries_list=shared, return_results=True)
            first_calls = list(calls)
            del calls[:]
        world, net_pop, net_pop_fed, results = r.run_model_no_trade(title="c15_%d" % os.getpid(), create_pptx_with_all_countries=False, show_country_figures=False,
                                                                   show_map_figures=False, add_map_slide_to_pptx=False, scenario_option=opts,
                                                                   countries_list=shared, return_results=True, **({"save_all_results": True} if save else {}))
    sel = expected_selection(isos, lst)
    pop = {row["iso3"]: float(row["population"]) for _, row in tab.iterrows()}
    if popov is not None:
        # the weight of a country is the population it was modelled with: the override, as handed to the per-country computation
        if any(modelled_pop.get(i) != float(popov) for i in sel):
            return [violation("capped_population_weighted_mean", {"selection": list(lst), "table": table, "population_override": popov},
                              "population override %r did not reach the per-country computation: %s" % (popov, {i: modelled_pop.get(i) for i in sel[:4]}),
                              {"selection": list(lst), "table": table, "real": real, "save": save, "popov": popov})], None
        pop = {i: float(popov) for i in pop}
    name = {row["iso3"]: row["country"] for _, row in tab.iterrows()}
    key = {"selection": list(lst), "table": table, "real": real}
    rp = {"selection": list(lst), "table": table, "real": real, "save": save}
    if popov is not None:
        key["population_override"] = popov
        rp["popov"] = popov
    vs = []
    if real:
        fr = dict(calls)
        ran = [c[0] for c in calls]
    else:
        fr = {iso: fraction_for(idx[iso], table) for iso in sel}
        ran = calls
    if not real and sorted(first_calls) != sorted(sel):
        vs.append(violation("selection_rule", dict(key, call="first"), "list %s ran %s on the first call, documented rule selects %s" % (list(lst), sorted(set(first_calls) ^ set(sel))[:8], len(sel)), rp))
        return vs, None
    if sorted(ran) != sorted(sel):
        twice = sorted({i for i in ran if ran.count(i) > 1})
        vs.append(violation("selection_rule", key, "list %s ran %d countries (differing from the rule: %s; run more than once: %s), documented rule selects %s, each once" % (
            list(lst), len(ran), sorted(set(ran) ^ set(sel))[:8], twice[:8], len(sel)), rp))
        return vs, None
    sel = [i for i in sel if fr[i] == fr[i]]          # a run that reported failure (NaN) is outside aggregate and results
    if sorted(results.keys()) != sorted(name[i] for i in sel) or len(results) != len(sel):
        vs.append(violation("each_selected_country_once", key, "results hold %d entries for %d selected countries that ran" % (len(results), len(sel)), rp))
    want_pop = sum(pop[i] for i in sel)
    want_fed = sum(pop[i] * min(1.0, fr[i]) for i in sel)
    if not common.close(net_pop, want_pop, rel=1e-12) or not common.close(net_pop_fed, want_fed, rel=1e-9):
        vs.append(violation("capped_population_weighted_mean", key, "list %s: population %r fed %r, expected %r and %r" % (list(lst), net_pop, net_pop_fed, want_pop, want_fed), rp))
    if net_pop > 0 and not (0 <= net_pop_fed / net_pop <= 1 + 1e-12):
        vs.append(violation("aggregate_between_0_and_1", key, "aggregate %r" % (net_pop_fed / net_pop), rp))
    return vs, (round(net_pop_fed / net_pop, 9) if net_pop else None)


def job(j):
    lst, table, real = j[:3]
    save = len(j) > 3 and j[3]
    popov = j[4] if len(j) > 4 else None
    supplies.init()
    with common.quiet():
        from src.scenarios.run_model_no_trade import ScenarioRunnerNoTrade
    vs, agg = check_call(ScenarioRunnerNoTrade, supplies._S["tab"], lst, table, real, save, popov)
    return {"v": vs, "agg": agg, "n": len(expected_selection(list(supplies._S["tab"]["iso3"]), lst))}


def patterns():
    for combo in itertools.product(("absent", "named", "excluded"), repeat=len(UNIVERSE)):
        yield tuple((iso if c == "named" else "!" + iso) for iso, c in zip(UNIVERSE, combo) if c != "absent")


def duplicate_patterns():
    """lists that name a country more than once (selection is a set of countries: each is run and counted once)"""
    a, b, c = UNIVERSE[0], UNIVERSE[1], UNIVERSE[3]
    return [(a, a), (a, b, a), (b, a, b, a), ("!" + a, "!" + a), ("!" + a, "!" + b, "!" + a), (a, "!" + c, a), ("!" + c, a, b, a)]


def run(tier, seed):
    jobs = [(p, t, False) for p in list(patterns()) + duplicate_patterns() for t in range(5)]
    jobs += [(p, t, False, False, pv) for p in list(patterns()) + duplicate_patterns()[:2] for t, pv in ((1, 3e6), (4, 2.5e7))]
    real = [(("USA", "LUX"), 0, True), (("ARG", "!USA"), 0, True), (("!USA",) if tier == "thorough" else ("SWT",), 0, True),
            (("LUX", "SWT"), 0, True, True)]          # the last one also asks for the per-country tables to be saved (as the web front end does)
    res = common.pmap(job, jobs + real, init_fn=supplies.init, chunksize=1)
    vs = [v for r in res for v in r["v"]]
    cov = {"executions": len(res), "states": sum(r["n"] for r in res), "transitions": sum(r["n"] for r in res),
           "traces_validated_against_impl": len(res), "distinct_outcomes": len({r["agg"] for r in res}),
           "stubbed_calls": 2 * len(jobs), "real_unstubbed_calls": len(real),
           "bound": {"history": "every stubbed selection is run twice with the same list object; the second call is judged against the caller's original list",
                     "selection": "every pattern absent / named / '!'-named per country over %s (81 lists: empty, inclusion, exclusion, mixed) + 7 lists that name a country more than once" % UNIVERSE,
                     "population override": "every selection pattern again with the custom parameter population = 3e6 (table 1) and 2.5e7 (table 4, with failing countries): weights are the populations the countries were modelled with",
                     "fractions": "3 assignment tables over %s + 2 tables in which every third country reports a failed run (NaN)" % (list(FRACTIONS),), "real": [list(r[0]) for r in real]},
           "alphabet": "a state is one selected country row contributing to the aggregate; a transition one per-country step of run_model_no_trade",
           "samples": [{"selection": list(jobs[5][0]), "table": 0}, {"selection": list(jobs[-1][0]), "table": 2}, {"selection": ["USA", "LUX"], "real": True}],
           "caps_hit": []}
    return {"coverage": cov, "violations": vs, "assumptions": ["the stand-in replaces only run_optimizer_for_country; table reading, custom parameters, row verification and aggregation are the real code"]}


def replay(rp):
    return job((tuple(rp["selection"]), rp["table"], rp["real"], rp.get("save", False), rp.get("popov")))["v"]
