"""C11 A food quantity's unit labels always describe its numbers.

Breadth-first exploration of operation sequences on real Food objects from a seed pool, with a
reference value type (numbers + base labels + form) predicting every step; canonical state =
(shape, values, three labels, label list) - exact, nothing dropped.  Plus: full product of
constructor argument kinds, and scalar-vs-one-month-series agreement of every predicate under
the four fat/protein inclusion settings."""
import itertools

from .. import common, units_ref as U
from ..common import violation

POP, KD, FD, PD = 3.29e8, 2100.0, 47.0, 51.0
CURRENT = [POP, KD, FD, PD]      # the requirement the shared conversions object currently holds (settings histories move it)
FAMILIES = {
    "abs": ("billion kcals", "thousand tons", "thousand tons"),
    "pct": ("percent people fed", "percent people fed", "percent people fed"),
    "ratio": ("ratio", "ratio", "ratio"),
    # same calorie label as "abs" but a different protein / fat label: combining them with "abs" must be refused whatever the
    # fat/protein inclusion flags say (a check that looks at the calorie label only would let them through)
    "mixp": ("billion kcals", "thousand tons", "million tons"),
    "mixf": ("billion kcals", "million tons", "thousand tons"),
    # only partly a ratio: must be treated as an ordinary quantity (a ratio test that looks at two of the three labels would not)
    "pratio": ("ratio", "ratio", "thousand tons"),
}
REFUSE = "REFUSE"


class Ref:
    """boring reference value: shape None (scalar) or n; vals = 3 tuples of floats; base labels; form"""
    __slots__ = ("n", "vals", "base", "form")

    def __init__(self, n, vals, base, form):
        self.n, self.vals, self.base, self.form = n, tuple(tuple(float(x) for x in v) for v in vals), tuple(base), form

    def labels(self):
        return [b + self.form for b in self.base]

    def key(self):
        return (self.n, tuple(tuple(round(x, 9) for x in v) for v in self.vals), tuple(self.labels()))

    def is_ratio(self):
        return all("ratio" in b for b in self.base)


def food_of(Food, r):
    import numpy as np
    if r.n is None:
        return Food(r.vals[0][0], r.vals[1][0], r.vals[2][0], *r.labels())
    return Food(np.array(r.vals[0]), np.array(r.vals[1]), np.array(r.vals[2]), *r.labels())


def observe(f):
    """canonical state of a real Food"""
    import numpy as np
    lst = f.is_list_monthly()
    vals = tuple(tuple(round(float(x), 9) for x in np.atleast_1d(np.asarray(v, dtype=float))) for v in (f.kcals, f.fat, f.protein))
    return (len(f.kcals) if lst else None, vals, (f.kcals_units, f.fat_units, f.protein_units), tuple(f.units))


def state_problems(f):
    """invariants every Food must satisfy (class docstring conventions)"""
    out = []
    labels = [f.kcals_units, f.fat_units, f.protein_units]
    if list(f.units) != labels:
        out.append(("label_list_agrees", "label list %s != labels %s" % (list(f.units), labels)))
    lst = f.is_list_monthly()
    for l in labels:
        if lst and not (l.endswith(" each month") and l.count("each month") == 1 and "per month" not in l):
            out.append(("form_agrees_with_shape", "series labelled %r" % l))
            break
        if not lst and "each month" in l:
            out.append(("form_agrees_with_shape", "single value labelled %r" % l))
            break
    return out


# ------------------------------------------------------------------ operations (name, apply on real, apply on reference)


def _map(r, fn):
    return Ref(r.n, [[fn(x) for x in v] for v in r.vals], r.base, r.form)


def _conv(target):
    def ref(r):
        if r.is_ratio() or any(b not in (U.KCAL_BASES if i == 0 else U.NUTR_BASES) for i, b in enumerate(r.base)):
            return REFUSE
        f = U.factors(r.base, target, *CURRENT)
        return Ref(r.n, [[x * fi for x in v] for v, fi in zip(r.vals, f)], target, r.form)
    return ref


def unary_ops():
    ops = []
    ops.append(("neg", lambda f: -f, lambda r: _map(r, lambda x: -x)))
    ops.append(("abs", lambda f: f.get_abs_values(), lambda r: _map(r, abs)))
    ops.append(("times2", lambda f: f * 2.0, lambda r: _map(r, lambda x: x * 2.0)))
    ops.append(("rtimes2", lambda f: 2.0 * f, lambda r: _map(r, lambda x: x * 2.0)))
    ops.append(("div4", lambda f: f / 4.0, lambda r: _map(r, lambda x: x / 4.0)))
    ops.append(("clip", lambda f: f.negative_values_to_zero(), lambda r: _map(r, lambda x: 0.0 if x < 0 else x)))
    for k in (0, -1):
        ops.append(("index%d" % k, (lambda k: lambda f: f[k])(k),
                    (lambda k: lambda r: REFUSE if r.n is None else Ref(None, [[v[k]] for v in r.vals], r.base, " per month"))(k)))
        ops.append(("get_month%d" % k, (lambda k: lambda f: f.get_month(k))(k),
                    (lambda k: lambda r: REFUSE if r.n is None else Ref(None, [[v[k]] for v in r.vals], r.base, " per month"))(k)))
    # the same single-month extraction with a numpy integer key (what np.argmax / np.arange / a loop over an array hand over)
    import numpy as _np
    ops.append(("index_np1", lambda f: f[_np.int64(0)],
                lambda r: REFUSE if r.n is None else Ref(None, [[v[0]] for v in r.vals], r.base, " per month")))
    ops.append(("first_month", lambda f: f.get_first_month(),
                lambda r: REFUSE if r.n is None else Ref(None, [[v[0]] for v in r.vals], r.base, " per month")))
    ops.append(("slice1", lambda f: f[0:1], lambda r: REFUSE if r.n is None else Ref(1, [v[0:1] for v in r.vals], r.base, r.form)))
    ops.append(("sliceall", lambda f: f[0:], lambda r: REFUSE if r.n is None else Ref(r.n, r.vals, r.base, r.form)))
    ops.append(("sum", lambda f: f.get_nutrients_sum(), lambda r: REFUSE if r.n is None else Ref(None, [[sum(v)] for v in r.vals], r.base, "")))
    ops.append(("running", lambda f: f.get_running_total_nutrients_sum(),
                lambda r: REFUSE if r.n is None else Ref(r.n, [list(itertools.accumulate(v)) for v in r.vals], r.base, r.form)))
    ops.append(("min_months", lambda f: f.get_min_all_months(), lambda r: REFUSE if r.n is None else Ref(None, [[min(v)] for v in r.vals], r.base, "")))
    ops.append(("max_months", lambda f: f.get_max_all_months(), lambda r: REFUSE if r.n is None else Ref(None, [[max(v)] for v in r.vals], r.base, "")))
    def ref_round(r):
        import numpy as np
        if r.n is None:
            return REFUSE
        # a value within float noise of a rounding boundary is not modelled (conversion factors differ in the last ulp)
        if any(np.round(x * (1 - 1e-9), 1) != np.round(x * (1 + 1e-9), 1) for v in r.vals for x in v):
            return ("SKIP", None)
        return _map(r, lambda x: float(np.round(x, 1)))
    ops.append(("round1", lambda f: f.get_rounded_to_decimal(1), ref_round))
    ops.append(("shift1", lambda f: f.shift(1), lambda r: REFUSE if r.n is None else Ref(r.n, [[0.0] + list(v[:-1]) for v in r.vals], r.base, r.form)))
    ops.append(("to_percent", lambda f: f.in_units_percent_fed(), _conv(("percent people fed",) * 3)))
    ops.append(("to_billion_kcals", lambda f: f.in_units_bil_kcals_thou_tons_thou_tons_per_month(), _conv(("billion kcals", "thousand tons", "thousand tons"))))
    ops.append(("to_kcals_equivalent", lambda f: f.in_units_kcals_equivalent(),
                _conv(("kcals per person per day", "effective kcals per person per day", "effective kcals per person per day"))))
    ops.append(("to_billions_fed", lambda f: f.in_units_billions_fed(), _conv(("billion people fed",) * 3)))
    # direct conversions whose fat and protein targets differ (the named helpers above always ask for the same label twice)
    for nm, tgt in (("to_mixed_tons", ("billion kcals", "thousand tons", "million tons")),
                    ("to_mixed_fed", ("percent people fed", "grams per person per day", "billion people fed"))):
        ops.append((nm, (lambda tgt: lambda f: f.in_units(*tgt))(tgt), _conv(tgt)))
    return ops


def _same(a, b):
    return a.labels() == b.labels() and a.n == b.n


def _zip(a, b, fn, base=None, form=None):
    return Ref(a.n, [[fn(x, y) for x, y in zip(va, vb)] for va, vb in zip(a.vals, b.vals)], base or a.base, a.form if form is None else form)


def ref_mul(a, b):
    """ratio x units keeps the other operand's units whichever side; unsupported shape mixes may refuse"""
    if not (a.is_ratio() or b.is_ratio()):
        return REFUSE
    other = b if a.is_ratio() else a          # the operand whose units survive
    if a.is_ratio() and b.is_ratio():
        other = a if a.n is not None or b.n is None else b
    if a.n == b.n:
        return _zip(a, b, lambda x, y: x * y, base=other.base, form=other.form)
    if a.n is not None and b.n is not None:
        return ("MAY_REFUSE", None)     # series of different lengths: not modelled
    # scalar x series: the documented cases are ratio-scalar x series (either order)
    sc, ls = (a, b) if a.n is None else (b, a)
    if not sc.is_ratio():
        return ("MAY_REFUSE", None)
    return Ref(ls.n, [[sc.vals[i][0] * y for y in ls.vals[i]] for i in range(3)], ls.base, ls.form)


def ref_div(a, b):
    if a.labels() != b.labels():
        return REFUSE
    if a.n != b.n:
        return ("MAY_REFUSE", None)
    if any(y == 0 for v in b.vals for y in v):
        return ("SKIP", None)
    return _zip(a, b, lambda x, y: x / y, base=("ratio", "ratio", "ratio"), form=" each month" if a.n is not None else "")


def binary_ops(Food):
    return [
        ("add", lambda a, b: a + b, lambda a, b: _zip(a, b, lambda x, y: x + y) if _same(a, b) else (REFUSE if a.labels() != b.labels() else ("MAY_REFUSE", None))),
        ("sub", lambda a, b: a - b, lambda a, b: _zip(a, b, lambda x, y: x - y) if _same(a, b) else (REFUSE if a.labels() != b.labels() else ("MAY_REFUSE", None))),
        ("mul", lambda a, b: a * b, ref_mul),
        ("div", lambda a, b: a / b, ref_div),
        ("min", lambda a, b: Food.min_elementwise(a, b), lambda a, b: _zip(a, b, min) if _same(a, b) else (REFUSE if a.labels() != b.labels() else ("MAY_REFUSE", None))),
    ]


def pool():
    out = []
    for fam, base in FAMILIES.items():
        for pat, (k, f, p) in (("A", (3.0, 1.0, 2.0)), ("B", (0.0, -1.0, 0.5))):
            out.append(("%s:total:%s" % (fam, pat), Ref(None, [[k], [f], [p]], base, "")))
            out.append(("%s:permonth:%s" % (fam, pat), Ref(None, [[k], [f], [p]], base, " per month")))
            out.append(("%s:list1:%s" % (fam, pat), Ref(1, [[k], [f], [p]], base, " each month")))
            out.append(("%s:list2:%s" % (fam, pat), Ref(2, [[k, -k + 1], [f, f * 2], [p, 0.0]], base, " each month")))
    return out


class Explorer:
    def __init__(self):
        common.sandbox()
        with common.quiet():
            from src.food_system.food import Food
        self.Food = Food
        Food.conversions.set_nutrition_requirements(kcals_daily=KD, fat_daily=FD, protein_daily=PD, include_fat=False,
                                                    include_protein=False, population=POP)
        self.vs = []
        self.transitions = 0
        self.refusals = 0
        self.unary = unary_ops()
        self.binary = binary_ops(Food)

    def bad(self, clause, hist, detail):
        key = {"op": hist[-1] if hist else "seed", "history": " ; ".join(hist)}
        if sum(1 for v in self.vs if v["clause"] == clause and v["key"]["op"] == key["op"]) < 2:
            self.vs.append(violation(clause, key, detail, {"history": hist}))

    def step(self, hist, opname, real_fn, ref_fn, operands_real, operands_ref):
        """apply one operation; returns (real result, ref result) or None when refused / invalid"""
        before = [observe(f) for f in operands_real]
        self.transitions += 1
        exp = ref_fn(*operands_ref)
        try:
            got = real_fn(*operands_real)
            refused = False
        except (AssertionError, ValueError, TypeError, AttributeError, IndexError, ZeroDivisionError) as e:
            refused, err = True, e
        after = [observe(f) for f in operands_real]
        if before != after:
            self.bad("operands_unmodified", hist, "%s changed its operand: %s -> %s" % (opname, before, after))
        if isinstance(exp, tuple) and exp[0] == "SKIP":
            return None
        if refused:
            self.refusals += 1
            if exp is not REFUSE and not (isinstance(exp, tuple) and exp[0] == "MAY_REFUSE"):
                self.bad("refuses_valid_operation", hist, "%s refused (%r); expected %s" % (opname, err, exp.key()))
            return None
        if exp is REFUSE:
            self.bad("must_refuse", hist, "%s accepted operands it must refuse (units %s); returned %s" % (
                opname, [o.labels() for o in operands_ref], observe(got) if hasattr(got, "kcals") else got))
            return None
        if isinstance(exp, tuple):
            return None      # tolerated, result not modelled
        ok = True
        for clause, d in state_problems(got):
            self.bad(clause, hist, "%s -> %s: %s" % (opname, observe(got), d))
            ok = False
        o = observe(got)
        if o[2] != tuple(exp.labels()) and ok:
            self.bad("labels_correct", hist, "%s: labels %s, expected %s (values %s)" % (opname, list(o[2]), exp.labels(), o[1]))
            ok = False
        if o[0] != exp.n or any(abs(x - y) > 1e-9 * max(1.0, abs(y)) for vg, ve in zip(o[1], exp.key()[1]) for x, y in zip(vg, ve)) \
                or [len(v) for v in o[1]] != [len(v) for v in exp.vals]:
            self.bad("values_correct", hist, "%s: got %s, expected %s" % (opname, (o[0], o[1]), (exp.n, exp.key()[1])))
            ok = False
        return (got, exp) if ok else None

    def bfs(self, depth, seeds, binary_depth):
        """all operation sequences of length <= depth; states deduplicated by exact canonical form"""
        seen = {}
        frontier = []
        for name, r in seeds:
            f = food_of(self.Food, r)
            for clause, d in state_problems(f):
                self.bad(clause, ["seed " + name], d)
            if observe(f) not in seen:
                seen[observe(f)] = (f, r)
                frontier.append(([name], f, r))
        level = 0
        while frontier and level < depth:
            level += 1
            nxt = []
            partners = list(seen.values())
            for hist, f, r in frontier:
                for opname, real_fn, ref_fn in self.unary:
                    res = self.step(hist + [opname], opname, real_fn, ref_fn, [f], [r])
                    if res and observe(res[0]) not in seen:
                        seen[observe(res[0])] = res
                        nxt.append((hist + [opname], res[0], res[1]))
                if level <= binary_depth:
                    for opname, real_fn, ref_fn in self.binary:
                        for pf, pr in partners:
                            for order in (0, 1):
                                a, b = (f, pf) if order == 0 else (pf, f)
                                ra, rb = (r, pr) if order == 0 else (pr, r)
                                h = hist + ["%s(%s,%s)" % (opname, "x" if order == 0 else "y:" + str(pr.key()[2:]), "y:" + str(pr.key()[2:]) if order == 0 else "x")]
                                res = self.step(h, opname, real_fn, ref_fn, [a, b], [ra, rb])
                                if res and observe(res[0]) not in seen:
                                    seen[observe(res[0])] = res
                                    nxt.append((h, res[0], res[1]))
            frontier = nxt
        return seen


def constructor_product(Food, ex):
    """every combination of argument kinds for one calorie series / value"""
    import numpy as np
    n = 0
    kinds = {"float": 3.0, "int": 3, "list": [1.0, 2.0], "ndarray": np.array([1.0, 2.0]), "intlist": [1, 2]}
    other = {"int0": 0, "float0": 0.0, "list": [0.5, 0.25], "ndarray": np.array([0.5, 0.25])}
    for (kn, k), (fn_, f), (pn, p), suffix in itertools.product(kinds.items(), other.items(), other.items(), ("", " per month", " each month")):
        is_series = kn in ("list", "ndarray", "intlist")
        # only label sets that follow the documented conventions for the shape given are valid input
        if suffix not in (("", " each month") if is_series else ("", " per month")):
            continue
        labels = ["billion kcals" + suffix, "thousand tons" + suffix, "thousand tons" + suffix]
        hist = ["Food(kcals=%s, fat=%s, protein=%s, units suffix %r)" % (kn, fn_, pn, suffix)]
        n += 1
        try:
            obj = Food(k, f, p, *labels)
        except (AssertionError, TypeError, ValueError):
            continue
        for clause, d in state_problems(obj):
            ex.bad(clause, hist, d)
    # a series whose three labels carry the " each month" suffix independently (the constructor appends it where it is missing):
    # whatever mixture the caller wrote, the three labels and the combined list must come out agreeing
    for mask in itertools.product((False, True), repeat=3):
        labels = [b + (" each month" if m else "") for b, m in zip(("billion kcals", "thousand tons", "thousand tons"), mask)]
        hist = ["Food(series, labels %s)" % labels]
        n += 1
        try:
            obj = Food(np.array([1.0, 2.0]), np.array([0.5, 0.25]), np.array([0.5, 0.25]), *labels)
        except (AssertionError, TypeError, ValueError):
            continue
        for clause, d in state_problems(obj):
            ex.bad(clause, hist, d)
        # and it must combine with a plainly labelled series of the same units
        try:
            plain = Food(np.array([1.0, 2.0]), np.array([0.5, 0.25]), np.array([0.5, 0.25]), "billion kcals each month", "thousand tons each month", "thousand tons each month")
            res = obj + plain
            for clause, d in state_problems(res):
                ex.bad(clause, hist + ["add(x, plainly labelled series)"], d)
        except AssertionError as e:
            ex.bad("labels_correct", hist + ["add(x, plainly labelled series)"], "a series constructed with labels %s refuses to combine with the same units written out in full: %r" % (labels, e))
    return n


PREDICATES2 = ["all_greater_than", "all_less_than", "any_greater_than", "any_less_than", "all_greater_than_or_equal_to",
               "all_less_than_or_equal_to", "any_greater_than_or_equal_to", "any_less_than_or_equal_to", "__eq__", "__ne__"]
PREDICATES1 = ["all_greater_than_zero", "any_greater_than_zero", "all_equals_zero", "any_equals_zero",
               "all_greater_than_or_equal_to_zero", "is_never_negative"]


def predicate_product(Food, ex, menu):
    import numpy as np
    n = 0
    outcomes = set()
    triples = list(itertools.product(menu, repeat=3))
    base = ("billion kcals", "thousand tons", "thousand tons")
    for inc_f, inc_p in itertools.product((False, True), repeat=2):
        Food.conversions.set_nutrition_requirements(kcals_daily=KD, fat_daily=FD, protein_daily=PD, include_fat=inc_f,
                                                    include_protein=inc_p, population=POP)
        for form in ("", " per month"):
            sc = {t: Food(t[0], t[1], t[2], *[b + form for b in base]) for t in triples}
            ls = {t: Food(np.array([t[0]]), np.array([t[1]]), np.array([t[2]]), *[b + " each month" for b in base]) for t in triples}
            for t in triples:
                for name in PREDICATES1:
                    n += 1
                    a, b = bool(getattr(sc[t], name)()), bool(getattr(ls[t], name)())
                    outcomes.add((name, a))
                    if a != b:
                        ex.bad("predicate_scalar_series_agree", ["%s%s include_fat=%s include_protein=%s" % (name, t, inc_f, inc_p)],
                               "%s on single value %s -> %s, on the one-month series -> %s (include_fat=%s include_protein=%s)" % (name, t, a, b, inc_f, inc_p))
                for u in triples:
                    for name in PREDICATES2:
                        n += 1
                        a, b = bool(getattr(sc[t], name)(sc[u])), bool(getattr(ls[t], name)(ls[u]))
                        outcomes.add((name, a))
                        if a != b:
                            ex.bad("predicate_scalar_series_agree", ["%s(%s,%s) include_fat=%s include_protein=%s" % (name, t, u, inc_f, inc_p)],
                                   "%s(%s, %s): single values -> %s, one-month series -> %s (include_fat=%s include_protein=%s)" % (name, t, u, a, b, inc_f, inc_p))
        # refusing different units, scalar and series alike
        x = Food(1.0, 1.0, 1.0, *base)
        y = Food(1.0, 1.0, 1.0, "percent people fed", "percent people fed", "percent people fed")
        X = Food(np.array([1.0]), np.array([1.0]), np.array([1.0]), *[b + " each month" for b in base])
        Y = Food(np.array([1.0]), np.array([1.0]), np.array([1.0]), *["percent people fed each month"] * 3)
        for name in PREDICATES2:
            for a, b, what in ((x, y, "single values"), (X, Y, "series")):
                n += 1
                try:
                    getattr(a, name)(b)
                    ex.bad("must_refuse", ["%s on %s with different units include_fat=%s include_protein=%s" % (name, what, inc_f, inc_p)],
                           "%s compared %s with different units without refusing" % (name, what))
                except AssertionError:
                    pass
    Food.conversions.set_nutrition_requirements(kcals_daily=KD, fat_daily=FD, protein_daily=PD, include_fat=False, include_protein=False, population=POP)
    return n, len(outcomes)


QUERIES = ["get_units", "get_units_from_list_to_total", "get_units_from_list_to_element", "get_units_from_element_to_list", "is_list_monthly",
           "is_a_ratio", "is_units_percent", "validate_if_list", "make_sure_not_a_list", "make_sure_is_a_list", "make_sure_not_nan",
           "make_sure_fat_protein_zero_if_kcals_is_zero", "as_numpy_array", "get_min_nutrient", "get_max_nutrient", "__str__", "total_energy_in_food"]


def _ref_query_labels(name, r):
    lab = r.labels()
    if name == "get_units":
        return lab
    if name == "get_units_from_list_to_total":
        return [b for b in r.base] if r.n is not None else REFUSE
    if name == "get_units_from_list_to_element":
        return [b + " per month" for b in r.base] if r.n is not None else REFUSE
    if name == "get_units_from_element_to_list":
        return [l + " each month" for l in lab] if r.n is None else REFUSE
    return None


def query_product(ex, seeds):
    """read-only questions asked of a quantity that KEEPS being used: every query method on every seed, every ordered pair and
    every ordered sequence of two queries on the one object; mixed single-value / series comparisons on every ordered pair of
    seeds; replace_if_list_with_zeros_is_zero over every (series, series, replacement).  A query returns the documented labels,
    leaves the quantity exactly as it was (raw label list included, read without the healing get_units()) and leaves it usable:
    x + x afterwards still carries x's labels."""
    import numpy as np
    Food = ex.Food
    n = 0
    for name, r in seeds:
        for qs in [(q,) for q in QUERIES] + list(itertools.product(QUERIES[:5], repeat=2)):
            f = food_of(Food, r)
            before = observe(f)
            hist = ["seed " + name] + ["query %s()" % q for q in qs]
            for q in qs:
                n += 1
                exp = _ref_query_labels(q, r)
                try:
                    with common.quiet():
                        got = getattr(f, q)()
                except (AssertionError, ValueError, TypeError, AttributeError, IndexError) as e:
                    if exp not in (None, REFUSE):
                        ex.bad("refuses_valid_operation", hist, "%s refused (%r); expected %s" % (q, e, exp))
                    got = None
                else:
                    if exp is REFUSE:
                        ex.bad("must_refuse", hist, "%s answered %r for a quantity of the wrong shape" % (q, got))
                    elif exp is not None and list(got) != list(exp):
                        ex.bad("labels_correct", hist, "%s returned %s, expected %s" % (q, list(got), exp))
                after = observe(f)
                if after != before:
                    ex.bad("operands_unmodified", hist, "%s changed the quantity it was asked about: %s -> %s" % (q, before, after))
                    break
            # still usable as before: x + x keeps x's labels and is not refused
            try:
                res = f + f
                if observe(res)[2] != tuple(r.labels()) or state_problems(res):
                    ex.bad("labels_correct", hist + ["add(x,x)"], "after the queries x + x carries %s, expected %s" % (observe(res)[2:], r.labels()))
            except AssertionError as e:
                ex.bad("refuses_valid_operation", hist + ["add(x,x)"], "after the queries x + x is refused: %r" % (e,))
    # mixed single value / series comparisons and the elementwise replacement
    for (na, ra), (nb, rb) in itertools.product(seeds, repeat=2):
        if (ra.n is None) == (rb.n is None):
            continue
        for pname in PREDICATES2:
            n += 1
            a, b = food_of(Food, ra), food_of(Food, rb)
            before = (observe(a), observe(b))
            hist = ["seed " + na, "%s(x, y:%s)" % (pname, nb)]
            try:
                getattr(a, pname)(b)
            except (AssertionError, ValueError, TypeError, AttributeError):
                pass
            if (observe(a), observe(b)) != before:
                ex.bad("operands_unmodified", hist, "%s changed an operand: %s -> %s" % (pname, before, (observe(a), observe(b))))
    lists = [(nm, r) for nm, r in seeds if r.n == 2]
    for (na, ra), (nz, rz) in itertools.product(lists, repeat=2):
        for nr_, rr in list(seeds) + [("number 7.0", None)]:
            n += 1
            a, z = food_of(Food, ra), food_of(Food, rz)
            rep = 7.0 if rr is None else food_of(Food, rr)
            before = (observe(a), observe(z), None if rr is None else observe(rep))
            hist = ["seed " + na, "replace_if_list_with_zeros_is_zero(x, zeros:%s, replacement:%s)" % (nz, nr_)]
            compatible = rr is None or (rr.base == ra.base and (rr.n in (None, 2)) and (rr.n is not None or rr.form == ""))
            try:
                res = a.replace_if_list_with_zeros_is_zero(z, rep)
            except (AssertionError, ValueError, TypeError, AttributeError) as e:
                res = None
                if rr is None or (rr.n == 2 and rr.labels() == ra.labels()):
                    ex.bad("refuses_valid_operation", hist, "refused (%r)" % (e,))
            else:
                if rr is not None and rr.base != ra.base:
                    ex.bad("must_refuse", hist, "accepted a replacement in different units %s for a series in %s" % (rr.labels(), ra.labels()))
                else:
                    for clause, d in state_problems(res):
                        ex.bad(clause, hist, d)
                    if observe(res)[2] != tuple(ra.labels()):
                        ex.bad("labels_correct", hist, "result labels %s, expected %s" % (observe(res)[2], ra.labels()))
                    if compatible:
                        want = [[(7.0 if rr is None else (rr.vals[i][m] if rr.n else rr.vals[i][0])) if rz.vals[i][m] == 0 else ra.vals[i][m] for m in range(2)] for i in range(3)]
                        gotv = observe(res)[1]
                        if any(abs(x - y) > 1e-9 for vg, vw in zip(gotv, want) for x, y in zip(vg, vw)):
                            ex.bad("values_correct", hist, "got %s, expected %s" % (gotv, want))
            after = (observe(a), observe(z), None if rr is None else observe(rep))
            if after != before:
                ex.bad("operands_unmodified", hist, "changed an operand: %s -> %s" % (before, after))
    return n


SETTING_HISTORIES = [[(POP, KD, 61.7, 59.5)], [(POP, KD, FD, 59.5), (POP, KD, FD, PD)], [(POP, 1800.0, FD, PD), (POP, KD, 61.7, PD)], [(7.8e9, KD, FD, PD), (POP, KD, FD, PD)]]


def settings_histories(ex, seeds):
    """the requirement is process-wide state: after the exploration above (which converts under the first setting) the setting is
    re-assigned along short histories that change one or two of (population, kcal, fat, protein) - among them the model's own pair of
    profiles, which differ in fat and protein only - and after every assignment every conversion of the unary alphabet is applied to
    every seed and judged against the factors of the CURRENT setting"""
    n = 0
    conv = [o for o in ex.unary if o[0].startswith("to_")]
    try:
        for hist in SETTING_HISTORIES:
            done = []
            for setting in hist:
                done.append(setting)
                ex.Food.conversions.set_nutrition_requirements(kcals_daily=setting[1], fat_daily=setting[2], protein_daily=setting[3],
                                                               include_fat=False, include_protein=False, population=setting[0])
                CURRENT[:] = list(setting)
                for name, r in seeds:
                    f = food_of(ex.Food, r)
                    for opname, real_fn, ref_fn in conv:
                        n += 1
                        ex.step(["settings " + " -> ".join(str(x) for x in done), "seed " + name, opname], opname, real_fn, ref_fn, [f], [r])
    finally:
        CURRENT[:] = [POP, KD, FD, PD]
        ex.Food.conversions.set_nutrition_requirements(kcals_daily=KD, fat_daily=FD, protein_daily=PD, include_fat=False, include_protein=False, population=POP)
    return n


def run(tier, seed):
    ex = Explorer()
    seeds = pool()
    if tier == "quick":
        s2 = common.rotate(seeds, seed, 8)
        seen1 = ex.bfs(1, seeds, binary_depth=1)
        seen2 = ex.bfs(2, s2, binary_depth=1)
        states = len(seen1) + len(seen2)
        bound = {"depth": "d=1 complete from all %d seeds (unary + binary with every seed as partner); d=2 from %d seeds: %s" % (len(seeds), len(s2), [n for n, _ in s2])}
    else:
        seen = ex.bfs(3, seeds, binary_depth=2)
        states = len(seen)
        bound = {"depth": "d=2 complete (unary + binary, partners = every state reached so far) + d=3 unary chains, from all %d seeds" % len(seeds)}
    nc = constructor_product(ex.Food, ex)
    npred, pred_out = predicate_product(ex.Food, ex, (-1.0, 0.0, 2.0) if tier == "quick" else (-1.0, 0.0, 0.5, 2.0))
    nq = query_product(ex, seeds)
    nq += settings_histories(ex, seeds)
    cov = {"executions": ex.transitions + nc + npred + nq, "query_and_mixed_shape_cases": nq, "states": states, "transitions": ex.transitions,
           "traces_validated_against_impl": ex.transitions, "distinct_outcomes": states + pred_out,
           "refusals_observed": ex.refusals, "constructor_cases": nc, "predicate_evaluations": npred,
           "bound": bound,
           "alphabet": {"unary": [o[0] for o in ex.unary], "binary": [o[0] for o in ex.binary], "predicates": PREDICATES1 + PREDICATES2, "queries (operand must stay exactly as it was)": QUERIES,
                        "settings histories": [[list(x) for x in h] for h in SETTING_HISTORIES],
                        "mixed shape": "every comparison on every ordered (single value, series) pair of seeds; replace_if_list_with_zeros_is_zero over every (series, series, replacement) triple of seeds + a number",
                        "seed pool": [n for n, _ in seeds]},
           "samples": [{"history": ["abs:list2:A", "get_month0", "times2"]}, {"history": ["ratio:total:A", "mul(x,y:abs list)"]}],
           "caps_hit": []}
    return {"coverage": cov, "violations": ex.vs,
            "assumptions": ["label conventions of the Food class docstring: series <=> ' each month', single per-month value <=> ' per month', total <=> neither",
                            "operations the docstrings list as unsupported (e.g. non-ratio scalar x series) may refuse; a refusal is never a wrong label"]}


def replay(rp):
    """re-run the exploration that reaches the recorded history and return violations with the same last operation"""
    ex = Explorer()
    hist = rp["history"]
    seeds = pool()
    names = [n for n, _ in seeds]
    if hist and hist[0].startswith("Food("):
        constructor_product(ex.Food, ex)
    elif hist and hist[0].startswith("settings "):
        settings_histories(ex, seeds)
    elif hist and hist[0].startswith("seed ") and len(hist) > 1 and (hist[1].startswith("query ") or "(x, y:" in hist[1] or hist[1].startswith("replace_if")):
        query_product(ex, seeds)
    elif hist and hist[0] in names or (hist and hist[0].startswith("seed ")):
        ex.bfs(min(3, max(1, len(hist) - 1)), seeds, binary_depth=min(2, max(1, len(hist) - 1)))
    else:
        predicate_product(ex.Food, ex, (-1.0, 0.0, 0.5, 2.0))
    return [v for v in ex.vs if v["key"]["history"] == " ; ".join(hist)] or [v for v in ex.vs if v["key"]["op"] == (hist[-1] if hist else "seed")]
