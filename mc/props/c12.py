"""C12 More supply never feeds fewer people, and scale does not matter.

Instances = the exact (consts_for_optimizer, time_consts) of the first and last people-maximising rounds of
real runs (deep-copied at Optimizer.__init__); for each instance the full menu of single perturbations is
applied, one Optimizer(...).optimize_to_humans call per perturbed copy; metamorphic laws as oracle."""
import copy

import itertools

from .. import common, options, pipeline, supplies, tiny
from ..common import violation

PRESETS_Q = ("ms_example_resilient", "ms_worst", "yaml_net_baseline")
PRESETS_T = ("ms_example_resilient", "ms_worst", "yaml_net_baseline", "yaml_nw_reduced")
TOL = 1e-5     # same rule as C02: two solves of (nearly) the same LP by CBC agree to ~5e-6 relative at worst on the unchanged tree (DZA, SCP waste -5: -5.2e-6)


def solve(c, t):
    np = pipeline._P["np"]
    Opt = pipeline._P["Optimizer"]
    with common.quiet():
        o = Opt(c, t)
        try:
            return float(o.optimize_to_humans(c, t)[3])
        except AssertionError:
            return None       # infeasible perturbed programme: no value


def months_menu(N, thorough):
    if N <= 13:
        return [("all", list(range(N))), ("m0", [0]), ("last", [N - 1])]
    m = [("all", list(range(N))), ("m0", [0]), ("m13", [13]), ("last", [N - 1])]
    if thorough:
        m += [("m6", [6]), ("mid", [N // 2])]
    return m


def perturbations(c, t, thorough):
    """yields (name, expected sign, mutate(cc, tt)); sign +1: p must not decrease, -1: must not increase, 0: must stay equal"""
    np = pipeline._P["np"]
    N = c["NMONTHS"]
    need = c["BILLION_KCALS_NEEDED"]
    d = 0.05 * need

    def stock(cc, tt):
        cc["stored_food"].initial_available.kcals = cc["stored_food"].initial_available.kcals + d
    if c["ADD_STORED_FOOD"]:
        yield "stock+", 1, stock
    for label, ms in months_menu(N, thorough):
        def add_series(getter, label=label, ms=ms):
            def f(cc, tt):
                arr = getter(cc, tt)
                for m in ms:
                    arr[m] = arr[m] + d
            return f
        if c["ADD_OUTDOOR_GROWING"]:
            yield "crops+" + label, 1, add_series(lambda cc, tt: tt["outdoor_crops"].production.kcals)
        if c["ADD_METHANE_SCP"]:
            yield "scp+" + label, 1, add_series(lambda cc, tt: tt["methane_scp"].kcals)
        if c["ADD_CELLULOSIC_SUGAR"]:
            yield "sugar+" + label, 1, add_series(lambda cc, tt: tt["cellulosic_sugar"].kcals)
        yield "greenhouse+" + label, 1, add_series(lambda cc, tt: tt["greenhouse_crops"].kcals)
        yield "fish+" + label, 1, add_series(lambda cc, tt: tt["fish"].to_humans.kcals)
        yield "milk+" + label, 1, add_series(lambda cc, tt: tt["milk_kcals"])
        if c["ADD_MEAT"]:
            def meat(cc, tt, ms=ms):
                k = np.array(tt["each_month_meat_slaughtered"].kcals, dtype=float)
                for m in ms:
                    k[m] += d
                tt["each_month_meat_slaughtered"].kcals = k
                tt["max_consumed_culled_kcals_each_month"] = np.cumsum(k)
                cc["meat_summed_consumption"] = cc["meat_summed_consumption"] + d * len(ms)
            yield "meat+" + label, 1, meat
            # the two meat inputs one at a time: the running total of slaughter alone (meat allowed to be eaten by month m, raised from
            # the first listed month on) is pure extra supply whatever the total says
            def meat_running(cc, tt, ms=ms):
                k = np.array(tt["max_consumed_culled_kcals_each_month"], dtype=float)
                k[min(ms):] += d
                tt["max_consumed_culled_kcals_each_month"] = k
            yield "meat_running_total+" + label, 1, meat_running
        has_sources = c["ADD_STORED_FOOD"] or c["ADD_OUTDOOR_GROWING"]
        if has_sources and label in ("m0", "m13", "all"):
            def charge(which, ms=ms):
                def f(cc, tt):
                    k = np.array(tt[which].kcals, dtype=float)
                    for m in ms:
                        k[m] += 0.01 * need
                    tt[which].kcals = k
                return f
            yield "feed_charge+" + label, -1, charge("feed")
            yield "biofuel_charge+" + label, -1, charge("biofuel")
    if c["ADD_MEAT"]:
        def meat_last(cc, tt):
            k = np.array(tt["max_consumed_culled_kcals_each_month"], dtype=float)
            k[-1] += d
            tt["max_consumed_culled_kcals_each_month"] = k
        yield "meat_running_total+last", 1, meat_last
        yield "meat_total+", 1, lambda cc, tt: cc.__setitem__("meat_summed_consumption", cc["meat_summed_consumption"] + d)
    for key, add in (("CROP_WASTE_RETAIL", "ADD_OUTDOOR_GROWING"), ("STORED_FOOD_WASTE_RETAIL", "ADD_STORED_FOOD"), ("MEAT_WASTE_RETAIL", "ADD_MEAT"),
                     ("SCP_RETAIL_WASTE", "ADD_METHANE_SCP"), ("CELL_SUGAR_RETAIL_WASTE", "ADD_CELLULOSIC_SUGAR"), ("SEAWEED_WASTE_RETAIL", "ADD_SEAWEED")):
        if c[add] and c[key] >= 5:
            yield "waste-5:" + key, 1, (lambda key: lambda cc, tt: cc.__setitem__(key, cc[key] - 5))(key)
        # boundary values of one food's waste alone: halved, and removed altogether (exactly zero while the other foods keep theirs)
        if c[add] and c[key] > 0:
            yield "waste/2:" + key, 1, (lambda key: lambda cc, tt: cc.__setitem__(key, cc[key] / 2.0))(key)
            yield "waste=0:" + key, 1, (lambda key: lambda cc, tt: cc.__setitem__(key, 0))(key)
            yield "waste=0.0:" + key, 1, (lambda key: lambda cc, tt: cc.__setitem__(key, 0.0))(key)
    for kf in (0.5, 3.0):
        def scale(cc, tt, kf=kf):
            for k in ("POP", "POP_BILLIONS", "BILLION_KCALS_NEEDED", "meat_summed_consumption", "INITIAL_SEAWEED", "INITIAL_BUILT_SEAWEED_AREA",
                      "THOU_TONS_FAT_NEEDED", "THOU_TONS_PROTEIN_NEEDED"):
                cc[k] = cc[k] * kf
            cc["stored_food"].initial_available.kcals = cc["stored_food"].initial_available.kcals * kf
            tt["outdoor_crops"].production.kcals = np.array(tt["outdoor_crops"].production.kcals, dtype=float) * kf
            for k in ("methane_scp", "cellulosic_sugar", "greenhouse_crops", "each_month_meat_slaughtered", "feed", "biofuel"):
                tt[k].kcals = np.array(tt[k].kcals, dtype=float) * kf
            tt["fish"].to_humans.kcals = np.array(tt["fish"].to_humans.kcals, dtype=float) * kf
            tt["milk_kcals"] = np.array(tt["milk_kcals"], dtype=float) * kf
            tt["max_consumed_culled_kcals_each_month"] = np.array(tt["max_consumed_culled_kcals_each_month"], dtype=float) * kf
            tt["built_area"] = np.array(tt["built_area"], dtype=float) * kf
        yield "scale x%s" % kf, 0, scale


def check_instance(c, t, key, rp, thorough):
    vs = []
    c1, t1 = copy.deepcopy(c), copy.deepcopy(t)
    p0 = solve(c1, t1)
    stats = {"solves": 1, "infeasible": 0, "moved": 0}
    if p0 is None:
        return vs, stats, None
    # the identity perturbation (scale factor 1): solving the very same input objects again must give the same percent fed
    # (a programme builder that writes into the series it was handed makes every later comparison depend on the call history)
    p0b = solve(c1, t1)
    stats["solves"] += 1
    if p0b is None or abs(p0b - p0) > TOL * max(1.0, abs(p0)):
        vs.append(violation("scale_invariance", dict(key, perturbation="solve the same inputs again"),
                            "%s round %s: percent fed %.9g, and %s when the same input objects are solved a second time" % (key["iso3"], key["round"], p0, "%.9g" % p0b if p0b is not None else "infeasible"),
                            dict(rp, perturbation="solve the same inputs again")))
    got = {}
    for name, sign, fn in perturbations(c, t, thorough):
        cc, tt = copy.deepcopy(c), copy.deepcopy(t)
        fn(cc, tt)
        p = solve(cc, tt)
        stats["solves"] += 1
        if p is None:
            stats["infeasible"] += 1
            continue
        tol = TOL * max(1.0, abs(p0))
        if abs(p - p0) > tol:
            stats["moved"] += 1
        got[name] = p
        bad = (sign > 0 and p < p0 - tol) or (sign < 0 and p > p0 + tol) or (sign == 0 and abs(p - p0) > tol)
        if bad:
            law = {1: "more_supply_or_less_waste_never_lowers", -1: "more_charge_never_raises", 0: "scale_invariance"}[sign]
            vs.append(violation(law, dict(key, perturbation=name), "%s round %s %s: percent fed %.9g -> %.9g" % (key["iso3"], key["round"], name, p0, p), dict(rp, perturbation=name)))
    # chains: the law holds between any two points of a chain, not only against the unperturbed instance - waste w -> w/2 -> 0
    tol = TOL * max(1.0, abs(p0))
    for name, p in got.items():
        if name.startswith("waste=0"):
            half = got.get("waste/2:" + name.split(":", 1)[1])
            if half is not None and p < half - tol:
                pert = "waste/2 -> " + name
                vs.append(violation("more_supply_or_less_waste_never_lowers", dict(key, perturbation=pert),
                                    "%s round %s %s: percent fed %.9g at half the waste, %.9g with no waste at all" % (key["iso3"], key["round"], pert, half, p), dict(rp, perturbation=pert)))
    return vs, stats, p0


def job(j):
    iso, pn, thorough = j
    pipeline.init()
    opts = options.preset(pn)
    cap = pipeline.execute(iso, opts, "c12_%s_%s" % (pn, iso), want_inputs=True)
    out = {"v": [], "solves": 0, "infeasible": 0, "moved": 0, "instances": 0, "p": []}
    if cap["error"] or not cap.get("inputs"):
        out["skipped"] = cap["error"] or "no instance"
        return out
    kinds = [l["kind"] for l in cap["lp"]]
    picks = [(1, cap["inputs"][0])]
    if len(cap["inputs"]) >= 3:
        picks.append((3, cap["inputs"][-1]))
    for rnd, (c, t) in picks:
        key = {"iso3": iso, "preset": pn, "round": rnd}
        vs, st, p0 = check_instance(c, t, key, {"iso3": iso, "preset": pn, "round": rnd}, thorough)
        out["v"].extend(vs)
        out["instances"] += 1
        out["p"].append(p0)
        for k in ("solves", "infeasible", "moved"):
            out[k] += st[k]
    import os, sys
    rdir = os.path.join(sys.modules["src.optimizer.interpret_results"].repo_root, "results")
    for f in os.listdir(rdir):
        if f.startswith("c12_%s_%s_" % (pn, iso)):
            try:
                os.remove(os.path.join(rdir, f))
            except FileNotFoundError:
                pass
    return out


# ------------------------------------------------------------------ tiny instances: every balance and cap binds in some of them
def tiny_specs(thorough):
    Ns = (3, 5) if thorough else (3,)
    for N in Ns:
        crops = [[0.0] * N, [0.4] * N, [1.5] + [0.0] * (N - 1)] + ([[0.0] * (N - 1) + [1.5]] if thorough else [])
        meats = [[0.3] * N] + ([[0.0] * (N - 1) + [1.2]] if thorough else [])
        stocks = (0.4, 1.5) if thorough else (0.4,)
        seaweeds = (False, True) if thorough else (False,)
        # industrial foods both below and far above what people may eat of them (a surplus must go to feed/biofuel, where the
        # per-use caps bind); the charge menu includes biofuel above feed (a cap taken from the wrong charge shows only then) and a
        # biofuel charge far below the feed charge (below the per-use caps of the feed side)
        for stock, cr, mt, scp, cs, ch, sw, store, fb, waste in itertools.product(stocks, crops, meats, (None, 0.3, 0.9), (None, 0.6), (0.0, 0.3), seaweeds, (True, False),
                                                                                  ((0.0, 0.0), (0.1, 0.05), (0.05, 0.2), (0.1, 0.004)), (0.0, 20.0)):
            yield dict(N=N, need=1000.0, stock=stock, crops=cr, meat=mt, scp=scp, cs=cs, const_h=ch, seaweed=sw, store=store, feed=fb[0], biofuel=fb[1], waste=waste)


def tiny_job(chunk):
    pipeline.init()
    out = {"v": [], "solves": 0, "infeasible": 0, "moved": 0, "instances": 0, "p": []}
    for spec in chunk:
        c, t = tiny.build(**spec)
        key = {"iso3": "TINY", "preset": common.digest(spec), "round": 1}
        vs, st, p0 = check_instance(c, t, key, {"tiny": spec}, True)
        out["v"].extend(vs[:3])
        out["instances"] += 1
        out["p"].append(p0)
        for k in ("solves", "infeasible", "moved"):
            out[k] += st[k]
    return out


def run(tier, seed):
    supplies.init()
    isos = options.countries()
    thorough = tier == "thorough"
    if thorough:
        sel, presets = isos, PRESETS_T
    else:
        fixed = ["USA", "IND", "LUX"]
        sel = fixed + common.rotate([i for i in isos if i not in fixed], seed, 5)
        presets = PRESETS_Q
    jobs = [(iso, pn, thorough) for iso in sel for pn in presets]
    res = common.pmap(job, jobs, init_fn=pipeline.init, chunksize=1)
    specs = list(tiny_specs(thorough))
    tres = common.pmap(tiny_job, [specs[i:i + 6] for i in range(0, len(specs), 6)], init_fn=pipeline.init, chunksize=1)
    tiny_stats = {"instances": sum(r["instances"] for r in tres), "solves": sum(r["solves"] for r in tres), "moved": sum(r["moved"] for r in tres),
                  "infeasible": sum(r["infeasible"] for r in tres)}
    res = res + tres
    vs = [v for r in res for v in r["v"]]
    solves = sum(r["solves"] for r in res)
    inst = sum(r["instances"] for r in res)
    cov = {"executions": solves, "states": inst, "transitions": solves - inst, "traces_validated_against_impl": solves,
           "distinct_outcomes": len({round(p, 6) for r in res for p in r["p"] if p is not None}),
           "instances": inst, "perturbed_programmes_infeasible (no value, not judged)": sum(r["infeasible"] for r in res),
           "perturbations_that_moved_the_optimum": sum(r["moved"] for r in res),
           "runs_skipped": [r["skipped"][:100] for r in res if r.get("skipped")][:5],
           "tiny_instances": tiny_stats,
           "bound": {"countries": sel if not thorough else "all %d" % len(isos), "presets": list(presets), "rounds": "first and last people-maximising round of each run",
                     "tiny": "full product of %d tiny %s-month instances on the real Optimizer (stock, crop and meat patterns, SCP, sugar, seaweed, storage regime, feed/biofuel charge incl. biofuel above feed, retail waste), the whole perturbation menu on each" % (len(specs), "3- and 5" if thorough else "3"),
                     "menu": "every supply kind x month bucket %s x +5 %% of monthly need; each retail waste -5 points; feed and biofuel charge +1 %% of need per bucket; scale x0.5, x3" % [m[0] for m in months_menu(120, thorough)]},
           "alphabet": "a state is one captured LP instance; a transition one single perturbation of it, solved by the real Optimizer.optimize_to_humans",
           "samples": [{"iso3": "USA", "preset": "ms_example_resilient", "round": 1, "perturbation": "crops+m13"}, {"iso3": "USA", "preset": "ms_worst", "round": 3, "perturbation": "scale x3.0"}],
           "caps_hit": []}
    return {"coverage": cov, "violations": vs,
            "assumptions": ["seaweed growth/area is not in the supply menu (its ledger is an equality with a density ceiling and no disposal)",
                            "1e-5 relative tolerance on optima (CBC primal/dual tolerances on rows of magnitude up to 1e5 billion kcal); single-month perturbations move a binding optimum by >= 1e-4 relative"]}


def replay(rp):
    pipeline.init()
    if "tiny" in rp:
        r = tiny_job([rp["tiny"]])
        return [v for v in r["v"] if v["key"]["perturbation"] == rp.get("perturbation", v["key"]["perturbation"])]
    r = job((rp["iso3"], rp["preset"], True))
    return [v for v in r["v"] if v["key"]["round"] == rp["round"] and v["key"]["perturbation"] == rp.get("perturbation", v["key"]["perturbation"])]
