"""C08 Supply series follow the calendar, disruption schedule and configured delays.
C09 shares this module's plan (see c09.py): same executions, different clauses."""
import copy
import itertools

from .. import common, options, supplies
from ..common import violation

PRESETS = ("ms_example_resilient", "yaml_net_baseline")


def plan_first_round(tier, seed, pid):
    isos = options.countries()
    fixed = ["USA", "IND", "BRB", "LUX", "ZAF", "JPN"]
    if tier == "quick":
        sel = fixed + common.rotate([i for i in isos if i not in fixed], seed, 18)
        horizons = (48, 84, 120)
    else:
        sel = isos
        horizons = tuple(options.MENUS["NMONTHS"])
    fams = options.SUPPLY_FAMILIES if pid == "C08" else ("scenario", "crop_disruption", "seasonality", "waste")
    ovr = options.SUPPLY_OVERRIDES if pid == "C08" else ("CROP_PRODUCTION_MULTIPLIER",)
    jobs = []
    for pn in PRESETS:
        base = options.preset(pn)
        devs = [("default", base)] + options.single_deviations(base, families=fams, overrides=ovr, horizons=False)
        for iso in sel:
            for tag, o in devs:
                for h in horizons:
                    o2 = dict(o, NMONTHS=h)
                    jobs.append((iso, pn, tag, o2))
    # world aggregate: global presets, default + single deviations, all horizons of the tier
    for pn in ("g_example_resilient", "g_baseline"):
        base = options.preset(pn)
        devs = [("default", base)] + options.single_deviations(base, families=fams, overrides=ovr, horizons=False)
        for tag, o in devs:
            for h in horizons:
                jobs.append(("WOR", pn, tag, dict(o, NMONTHS=h)))
    return jobs, {"countries": sel if tier == "quick" else "all %d + WOR" % len(isos), "horizons": list(horizons),
                  "presets": list(PRESETS) + ["g_example_resilient", "g_baseline"], "families": list(fams), "overrides": list(ovr)}


_PID = ["C08"]


def outdoor_under_greenhouses_first_round(iso, opts, tag, c, tc, out_list):
    """C08 extra (kept here so that the shared engine file stays as it is): with cropland under greenhouses the documented
    function of the outdoor-crop series includes the reduction by the reference greenhouse share; the series handed to the
    optimiser must equal it (the clauses about the interplay itself remain C09's)."""
    n = c["NMONTHS"]
    area, total = supplies.ref_greenhouse_area(c, n)
    frac = [a / total if total else 0.0 for a in area]
    if max(frac) == 0:
        return
    key = {"iso3": iso, "deviation": tag or "default", "NMONTHS": n, "preset": opts.get("_preset", "")}
    rp = {"kind": "first_round", "iso3": iso, "opts": {k: v for k, v in opts.items()}}
    supplies.cmp_series("outdoor_crops", tc["outdoor_crops"].production.kcals, supplies.ref_outdoor(c, n, frac), n, out_list, key, rp,
                        clause="series_outdoor_crops_under_greenhouses")


def job_first_round(job):
    iso, pn, tag, opts = job
    pid = _PID[0]
    try:
        o = options.clean(opts) | {"_preset": pn}
        vs, c, tc, out = supplies.check_first_round(iso, o, want=(pid,), tag=tag)
        if pid == "C08":
            outdoor_under_greenhouses_first_round(iso, o, tag, c, tc, vs[pid])
    except Exception as e:
        import traceback
        return {"error": "%s %s %s: %r %s" % (iso, pn, tag, e, traceback.format_exc()[-400:])}
    np = supplies._S["np"]
    dg = common.digest([np.round(tc["outdoor_crops"].production.kcals, 6).tolist()[:24], float(np.sum(tc["greenhouse_crops"].kcals)),
                        float(np.sum(tc["methane_scp"].kcals)), float(np.sum(tc["built_area"]))])
    return {"v": vs[pid], "n": c["NMONTHS"], "digest": dg}


# ------------------------------------------------------------------ direct products


def base_constants():
    c, t, _ = supplies.constants_for("USA", options.clean(options.preset("ms_example_resilient")))
    return c, t


def seasonalities(tier):
    out = [("uniform", [1 / 12.0] * 12)]
    hots = range(12) if tier == "thorough" else (0, 3, 4, 11)
    for k in hots:
        s = [0.0] * 12
        s[k] = 1.0
        out.append(("onehot%d" % k, s))
    s = [0.0] * 12
    s[5], s[9] = 0.4, 0.6
    out.append(("twopeak", s))
    return out


def ratio_patterns(tier):
    out = []
    for r in (0.0, 0.3, 1.0, 1.5):
        out.append(("all%s" % r, [r] * 10))
    years = range(10) if tier == "thorough" else (0, 1, 4, 9)
    for y in years:
        for base, alt in ((1.0, 0.3), (0.3, 1.5), (1.0, 0.0)):
            p = [base] * 10
            p[y] = alt
            out.append(("y%d_%s_in_%s" % (y + 1, alt, base), p))
    return out


def direct_cases(tier, pid):
    """yields (label, constants, time, names, scaling)"""
    c0, t0 = base_constants()
    hz = (48, 84, 120)
    n = 0
    # G1 crops x greenhouses
    for (sn, s), (rn, r), b, h, reloc, w, gh in itertools.product(
            seasonalities(tier), ratio_patterns(tier), (0.0, 0.37e6, 5e8) if tier == "thorough" else (0.37e6, 5e8), hz if tier == "thorough" else (48, 120),
            (False, True), (0, 12, 50) if tier == "thorough" else (0, 12), (False, True)):
        c = copy.deepcopy(c0)
        c.update(SEASONALITY=s, BASELINE_CROP_KCALS=b, NMONTHS=h, OG_USE_BETTER_ROTATION=reloc, ADD_GREENHOUSES=gh)
        for i, v in enumerate(r):
            c["RATIO_CROPS_YEAR%d" % (i + 1)] = v
        c["RATIO_CROPS_YEAR11"] = r[-1]
        c["WASTE_DISTRIBUTION"] = dict(c["WASTE_DISTRIBUTION"], CROPS=w)
        n += 1
        yield ("crops:%s:%s:b%s:h%d:reloc%d:w%s:gh%d" % (sn, rn, b, h, reloc, w, gh), c, t0,
               ("outdoor_crops", "greenhouse_crops", "greenhouse_area"), n % 17 == 0)
    if pid == "C09":
        # expanded area
        for (sn, s), (rn, r), h, gh in itertools.product(seasonalities("quick"), ratio_patterns("quick"), hz, (False, True)):
            c = copy.deepcopy(c0)
            c.update(SEASONALITY=s, NMONTHS=h, OG_USE_BETTER_ROTATION=True, ADD_GREENHOUSES=gh,
                     RATIO_INCREASED_CROP_AREA=72 / 39.0, NUMBER_YEARS_TAKES_TO_REACH_INCREASED_AREA=3)
            for i, v in enumerate(r):
                c["RATIO_CROPS_YEAR%d" % (i + 1)] = v
            yield ("area:%s:%s:h%d:gh%d" % (sn, rn, h, gh), c, t0, ("outdoor_crops", "greenhouse_area"), False)
        # greenhouse schedule
        for d, mult, h, frac in itertools.product((0, 1, 2, 5), (0.0, 0.13, 1.0), hz, (0.0, 0.1, 1.0)):
            c = copy.deepcopy(c0)
            c.update(NMONTHS=h, GREENHOUSE_AREA_MULTIPLIER=mult, INITIAL_CROP_AREA_FRACTION=frac, ADD_GREENHOUSES=True)
            c["DELAY"] = dict(c["DELAY"], GREENHOUSE_MONTHS=d)
            yield ("gh:d%d:m%s:h%d:f%s" % (d, mult, h, frac), c, t0, ("outdoor_crops", "greenhouse_area"), False)
        return
    # G2 industrial foods
    for d, slope, w, h, frac in itertools.product((0, 1, 2, 5), (0, 1, 2), (0, 12, 50), hz, (0.0, 0.37, 1.0)):
        c = copy.deepcopy(c0)
        c.update(NMONTHS=h, INDUSTRIAL_FOODS_SLOPE_MULTIPLIER=slope, SCP_GLOBAL_PRODUCTION_FRACTION=frac, CS_GLOBAL_PRODUCTION_FRACTION=frac)
        c["DELAY"] = dict(c["DELAY"], INDUSTRIAL_FOODS_MONTHS=d)
        c["WASTE_DISTRIBUTION"] = dict(c["WASTE_DISTRIBUTION"], SUGAR=w)
        yield ("ind:d%d:s%s:w%s:h%d:f%s" % (d, slope, w, h, frac), c, t0, ("methane_scp", "cellulosic_sugar"), d == 2)
    # G3 seaweed
    for d, na, mx, h, add in itertools.product((0, 1, 2, 5), (0.0, 0.01, 1.0), (0.0, 0.001, 1.0), hz, (True, False)):
        c = copy.deepcopy(c0)
        c.update(NMONTHS=h, SEAWEED_NEW_AREA_FRACTION=na, SEAWEED_MAX_AREA_FRACTION=mx, ADD_SEAWEED=add)
        c["DELAY"] = dict(c["DELAY"], SEAWEED_MONTHS=d)
        yield ("sw:d%d:n%s:m%s:h%d:add%d" % (d, na, mx, h, add), c, t0, ("seaweed_built_area", "seaweed_growth"), False)
    # G4 greenhouse output
    for d, mult, h, gain in itertools.product((0, 1, 2, 5), (0.0, 0.13, 1.0), hz, (0, 44)):
        c = copy.deepcopy(c0)
        c.update(NMONTHS=h, GREENHOUSE_AREA_MULTIPLIER=mult, GREENHOUSE_GAIN_PCT=gain, ADD_GREENHOUSES=True)
        c["DELAY"] = dict(c["DELAY"], GREENHOUSE_MONTHS=d)
        yield ("ghk:d%d:m%s:h%d:g%d" % (d, mult, h, gain), c, t0, ("greenhouse_crops",), False)
    # G5 feed / biofuel demand
    for fd, bd, ann, h in itertools.product((0, 1, 2, 3, 12, "N"), (0, 1, 2, 6, "N"), (0.0, 0.37e6, 1e9), hz):
        c = copy.deepcopy(c0)
        c.update(NMONTHS=h, FEED_KCALS=ann, BIOFUEL_KCALS=ann / 3.0)
        c["DELAY"] = dict(c["DELAY"], FEED_SHUTOFF_MONTHS=h if fd == "N" else fd, BIOFUEL_SHUTOFF_MONTHS=h if bd == "N" else bd)
        yield ("dem:f%s:b%s:a%s:h%d" % (fd, bd, ann, h), c, t0, ("feed_demand", "biofuel_demand"), ann > 0 and fd == 3)
    # G6 stocks
    real = c0["END_OF_MONTH_STOCKS"]
    flat = {m: 1e6 for m in supplies.MONTHS}
    low_apr = dict(flat, APR=2e5)
    high_apr = dict(flat, APR=5e6, AUG=3e5)
    for (sn, st), pct, ratio, w in itertools.product((("real", real), ("flat", flat), ("lowapr", low_apr), ("highapr", high_apr)),
                                                     (0, 50, 100), (0, 0.5, 1), (0, 12, 50)):
        c = copy.deepcopy(c0)
        c.update(END_OF_MONTH_STOCKS=dict(st), PERCENT_STORED_FOOD_TO_USE=pct, RATIO_STOCKS_UNTOUCHED=ratio, ADD_STORED_FOOD=True)
        c["WASTE_DISTRIBUTION"] = dict(c["WASTE_DISTRIBUTION"], CROPS=w)
        yield ("stock:%s:p%s:r%s:w%s" % (sn, pct, ratio, w), c, t0, ("stored_food",), pct == 100)
    # G7 fish
    np = supplies._S["np"]
    pats = {"base": np.array([100.0] * 192), "zero": np.zeros(192), "nw": np.asarray(t0["FISH_PERCENT_MONTHLY"], dtype=float),
            "ramp": np.linspace(0, 150, 192)}
    for (pn, p), w, rw, h, add in itertools.product(pats.items(), (0, 12, 50), (0, 13.2), hz, (True, False)):
        c = copy.deepcopy(c0)
        c.update(NMONTHS=h, WASTE_RETAIL=rw, ADD_FISH=add)
        c["WASTE_DISTRIBUTION"] = dict(c["WASTE_DISTRIBUTION"], SEAFOOD=w)
        yield ("fish:%s:w%s:r%s:h%d:add%d" % (pn, w, rw, h, add), c, {"FISH_PERCENT_MONTHLY": p}, ("fish",), pn == "ramp")
    # G8 grass
    for (rn, r), b, h in itertools.product(ratio_patterns(tier), (0.0, 0.37, 1e3), options.MENUS["NMONTHS"]):
        c = copy.deepcopy(c0)
        c.update(NMONTHS=h, HUMAN_INEDIBLE_FEED_BASELINE_MONTHLY=b)
        for i, v in enumerate(r):
            c["RATIO_GRASSES_YEAR%d" % (i + 1)] = v
        yield ("grass:%s:b%s:h%d" % (rn, b, h), c, t0, ("grass",), False)


def outdoor_under_greenhouses_direct(c, t, label, got, out_list):
    ref = supplies.reference_from_constants(c, t)
    if max(ref["greenhouse_area"]) > 0:
        rp = {"kind": "direct", "label": label, "constants": c, "time": {"FISH_PERCENT_MONTHLY": list(map(float, t["FISH_PERCENT_MONTHLY"]))}}
        supplies.cmp_series("outdoor_crops", got["outdoor_crops"], ref["outdoor_crops"], c["NMONTHS"], out_list, {"direct": label}, rp,
                            clause="series_outdoor_crops_under_greenhouses")


def as_pipeline_floats(c):
    """the real pipeline hands the baselines over as numpy float64 (read from the country table by pandas); a zero baseline
    then follows the code's own 'if production is zero' branch instead of raising ZeroDivisionError on a Python float"""
    np = supplies._S["np"]
    c2 = dict(c)
    for k in ("BASELINE_CROP_KCALS", "BASELINE_CROP_FAT", "BASELINE_CROP_PROTEIN"):
        if k in c2 and not isinstance(c2[k], dict):
            c2[k] = np.float64(c2[k])
    return c2


def job_direct(chunk):
    pid = _PID[0]
    out = {"v": [], "n": 0, "states": 0, "rejected": 0, "digests": set()}
    for label, c, t, names, scaling in chunk:
        with supplies._S["np"].errstate(all="ignore"):
            vs, got, status = supplies.check_direct(as_pipeline_floats(c), t, label, want=(pid,), names=names, scaling=scaling)
        if got is None:
            out["rejected"] += 1
            continue
        if pid == "C08" and "outdoor_crops" in names:
            outdoor_under_greenhouses_direct(c, t, label, got, vs[pid])
        out["n"] += 1
        out["states"] += sum(len(got[nm]) for nm in names)
        out["digests"].add(common.digest([supplies._S["np"].round(got[nm], 6).tolist() for nm in names]))
        if len(out["v"]) < 30:
            out["v"].extend(vs[pid][:4])
    out["digests"] = len(out["digests"])
    return out


def explore(pid, tier, seed):
    _PID[0] = pid
    supplies.init()
    jobs, bound = plan_first_round(tier, seed, pid)
    res = common.pmap(job_first_round, jobs, init_fn=supplies.init)
    errors = [r["error"] for r in res if "error" in r]
    vs = [v for r in res if "v" in r for v in r["v"]]
    n1 = sum(1 for r in res if "v" in r)
    st1 = sum(r["n"] for r in res if "v" in r)
    dg1 = len({r["digest"] for r in res if "v" in r})
    cases = list(direct_cases(tier, pid))
    chunks = [cases[i:i + 60] for i in range(0, len(cases), 60)]
    res2 = common.pmap(job_direct, chunks, init_fn=supplies.init, chunksize=1)
    n2 = sum(r["n"] for r in res2)
    for r in res2:
        vs.extend(r["v"])
    nseries = 12 if pid == "C08" else 2
    cov = {
        "executions": n1 + n2, "states": st1 * nseries + sum(r["states"] for r in res2),
        "transitions": st1 * nseries + sum(r["states"] for r in res2),
        "traces_validated_against_impl": n1 + n2,
        "distinct_outcomes": dg1 + sum(r["digests"] for r in res2),
        "first_round_executions": n1, "direct_executions": n2,
        "direct_rejected_by_documented_precondition": sum(r["rejected"] for r in res2),
        "bound": dict(bound, direct="full products of generated constants per supply class (see mc/props/c08.py direct_cases), %d cases" % len(cases)),
        "alphabet": "a state is one (execution, series, month) value compared with the reference; a transition is the month step of that series",
        "samples": [{"iso3": j[0], "preset": j[1], "deviation": j[2], "NMONTHS": j[3]["NMONTHS"]} for j in jobs[:3]] + [{"direct": cases[0][0]}, {"direct": cases[-1][0]}],
        "caps_hit": [], "harness_errors": errors[:5],
    }
    if errors:
        cov["caps_hit"].append("%d first-round executions raised" % len(errors))
    return cov, vs, errors


# ------------------------------------------------------------------ option-level scaling (the multipliers a caller can pass)
SCALE_OPTIONS = (("GRASSES_PRODUCTION_MULTIPLIER", "grass"), ("CROP_PRODUCTION_MULTIPLIER", "outdoor_crops"))


def job_option_scaling(job):
    """series(option multiplier k) == k x series(no multiplier), month by month, through the real option dispatcher and
    first-round computation (the reference above takes the dispatcher's constants as given, so it cannot see this)"""
    iso, pn, h = job
    np = supplies._S["np"]
    base = options.clean(options.preset(pn))
    base["NMONTHS"] = h
    out = {"v": [], "n": 0, "states": 0}

    def series(o):
        c, t, res, grass = supplies.first_round(iso, o)
        return {"grass": np.asarray(grass.kcals, dtype=float), "outdoor_crops": np.asarray(res[1]["outdoor_crops"].production.kcals, dtype=float)}, c
    try:
        s0, c0 = series(dict(base))
        for optkey, name in SCALE_OPTIONS:
            for k in (0.5, 2.0):
                o = dict(base)
                o[optkey] = k
                s1, _ = series(o)
                out["n"] += 1
                out["states"] += h
                want = s0[name] * k
                if name == "outdoor_crops":
                    # year 1 (months 0-7) is not linear in the ratio: only the harvest after May is exposed to the disruption
                    lo = 8
                else:
                    lo = 0
                bad = np.where(np.abs(s1[name][lo:] - want[lo:]) > 1e-9 * max(1.0, float(np.abs(want).max())))[0]
                if len(bad):
                    m = int(bad[0]) + lo
                    out["v"].append(violation("option_multiplier_scales_series", {"iso3": iso, "preset": pn, "NMONTHS": h, "option": optkey, "factor": k},
                                              "%s %s=%s: %s month %d is %r, %s x the series without the option is %r (%d months differ)" % (
                                                  iso, optkey, k, name, m, float(s1[name][m]), k, float(want[m]), len(bad)),
                                              {"kind": "option_scaling", "iso3": iso, "preset": pn, "NMONTHS": h}))
    except Exception as e:
        import traceback
        return {"error": "%s %s: %r %s" % (iso, pn, e, traceback.format_exc()[-300:])}
    return out


def job_shared_dictionary(job):
    """the multi-country runner hands ONE option dictionary to every country: the supply series of a country must be the same
    whether its constants are derived from a fresh dictionary or from the dictionary another country's call has already seen
    (ALB and SLV trigger the model's rewrite of known-bad options)"""
    first, second, pn = job
    np = supplies._S["np"]
    out = {"v": [], "n": 0, "states": 0}
    try:
        SR = supplies._S["ScenarioRunner"]
        rows = supplies._S["rows"]
        o = options.clean(options.preset(pn))
        fresh = copy.deepcopy(o)
        with common.quiet():
            SR().set_depending_on_option(o, country_data=rows[first])
            c, t, _ = SR().set_depending_on_option(o, country_data=rows[second])
            c_ref, t_ref, _ = SR().set_depending_on_option(fresh, country_data=rows[second])
        got, want = supplies.series_from_constants(c, t), supplies.series_from_constants(c_ref, t_ref)
        for name in want:
            out["n"] += 1
            out["states"] += len(want[name])
            a, b = np.asarray(got[name], dtype=float), np.asarray(want[name], dtype=float)
            if a.shape != b.shape or not np.allclose(a, b, rtol=1e-12, atol=0):
                m = int(np.argmax(np.abs(a - b))) if a.shape == b.shape else 0
                out["v"].append(violation("series_" + name, {"iso3": second, "preset": pn, "after": first},
                                          "%s %s after %s was configured from the same option dictionary: %s month %d is %r, from a fresh dictionary %r" % (
                                              second, pn, first, name, m, float(a[m]) if a.shape == b.shape else None, float(b[m])),
                                          {"kind": "shared_dictionary", "first": first, "second": second, "preset": pn}))
    except Exception as e:
        import traceback
        return {"error": "%s: %r %s" % (job, e, traceback.format_exc()[-300:])}
    return out


def option_scaling_plan(tier, seed):
    isos = options.countries()
    if tier == "quick":
        sel = ["USA", "IND"] + common.rotate([i for i in isos if i not in ("USA", "IND")], seed, 6)
        return [(iso, "ms_worst", h) for iso in sel for h in (120,)] + [("WOR", "g_worst", 120)]
    return [(iso, "ms_worst", h) for iso in isos for h in (48, 120)] + [("WOR", "g_worst", 120)]


def run(tier, seed):
    cov, vs, errors = explore("C08", tier, seed)
    sjobs = option_scaling_plan(tier, seed)
    sres = common.pmap(job_option_scaling, sjobs, init_fn=supplies.init, chunksize=1)
    errors = errors + [r["error"] for r in sres if "error" in r]
    for r in sres:
        vs.extend(r.get("v", []))
    ns = sum(r.get("n", 0) for r in sres)
    cov["executions"] += ns
    cov["traces_validated_against_impl"] += ns
    cov["states"] += sum(r.get("states", 0) for r in sres)
    cov["transitions"] += sum(r.get("states", 0) for r in sres)
    djobs = [(a, b, pn) for a in ("ALB", "SLV", "USA") for b in ("DZA", "USA") if a != b for pn in (("ms_example_resilient",) if tier == "quick" else ("ms_example_resilient", "yaml_nw_resilient", "ms_worst"))]
    dres = common.pmap(job_shared_dictionary, djobs, init_fn=supplies.init, chunksize=1)
    errors = errors + [r["error"] for r in dres if "error" in r]
    for r in dres:
        vs.extend(r.get("v", []))
    nd = sum(r.get("n", 0) for r in dres)
    cov["executions"] += nd
    cov["traces_validated_against_impl"] += nd
    cov["states"] += sum(r.get("states", 0) for r in dres)
    cov["transitions"] += sum(r.get("states", 0) for r in dres)
    cov["bound"]["shared_dictionary"] = "%d (first country, second country, preset): the second country's series from the dictionary the first country's call has seen == from a fresh dictionary" % len(djobs)
    cov["option_scaling_executions"] = ns
    cov["bound"]["option_scaling"] = "%d (country, preset, horizon) x {grass, crop} production multiplier x {0.5, 2}: series == factor x series without the option" % len(sjobs)
    cov["oracle"] = ("reference series written from the documentation: baseline x seasonality share of calendar month (4+i) mod 12 x "
                     "ratio of model year (blocks 8,12,...) x (1 - distribution waste); delay-then-ramp tables; stock formula; "
                     "length == NMONTHS (growth factors: at least NMONTHS), finite, >= 0; homogeneity under baseline x {0.5, 3}")
    if errors:
        raise RuntimeError("first-round executions raised: %s" % errors[:2])
    return {"coverage": cov, "violations": vs,
            "assumptions": ["the constants dictionary produced by the option dispatcher is the input (C13 covers the dispatcher)",
                            "with cropland under greenhouses the outdoor-crop series must equal the documented function including the reduction by the reference greenhouse share (clause series_outdoor_crops_under_greenhouses); the clauses about the interplay itself are C09's"]}


def replay(rp, pid="C08"):
    supplies.init()
    if rp["kind"] == "shared_dictionary":
        return job_shared_dictionary((rp["first"], rp["second"], rp["preset"])).get("v", [])
    if rp["kind"] == "option_scaling":
        return job_option_scaling((rp["iso3"], rp["preset"], rp["NMONTHS"])).get("v", [])
    if rp["kind"] == "first_round":
        vs, c, tc, _ = supplies.check_first_round(rp["iso3"], rp["opts"], want=(pid,))
        if pid == "C08":
            outdoor_under_greenhouses_first_round(rp["iso3"], rp["opts"], None, c, tc, vs[pid])
        return vs[pid]
    c = rp["constants"]
    np = supplies._S["np"]
    t = {"FISH_PERCENT_MONTHLY": np.array(rp["time"]["FISH_PERCENT_MONTHLY"])}
    with np.errstate(all="ignore"):
        vs, got, _ = supplies.check_direct(as_pipeline_floats(c), t, rp["label"], want=(pid,), scaling=True)
    if pid == "C08" and got is not None and "outdoor_crops" in got:
        outdoor_under_greenhouses_direct(c, t, rp["label"], got, vs[pid])
    return vs[pid]
