"""C16 - decided on the shared pipeline executions (mc/pipeline.py); this module only selects its monitor."""
from .. import pipeline

ORACLE = {
    "C01": "ledger audit written from the supplies: all variables >= 0; stored food cumulative use <= initial stock (== at the last month in people-maximising rounds when stock may be carried between years; no use after month 12 otherwise); crops cumulative use <= cumulative harvest (== at the last month); meat cumulative eaten/(1-waste) <= cumulative slaughter (same-month in the no-storage regime); SCP and sugar monthly use <= monthly output; seaweed growth-and-harvest recurrence, biomass within [initial, max density x built area], used area within [initial built, built]; feed/biofuel == charged series (people rounds), <= ceiling and feed non-increasing (feed round)",
    "C02": "an independently formulated LP (cumulative 'what exists so far' constraints built only from the captured supplies, waste factors, intake caps, charge/ceilings and pinned bands) solved with HiGHS; |optimum_CBC - optimum_HiGHS| <= 1e-5 relative; a reference that is infeasible where the model reports optimal is a violation",
    "C03": "relations between the rounds of one run: final < T-0.1 => feed+biofuel from human-edible food <= 0.1 percent-fed-equivalent every month and final >= no-feed round - 0.05; no-feed round >= T => final >= T - 0.05; every round and month feed <= feed demand schedule and biofuel <= biofuel demand schedule (recomputed from annual baselines and shut-off months), zero from the shut-off month on",
    "C04": "headline == min over months of the summed per-food kcal-equivalent series / daily need; each series == captured variable value x 1e9/(30 x POP) (seaweed x its kcal factor); |headline - first-stage optimum| <= 0.01 %; CSV cell == returned series cell (1e-9); immediate + new-stored == crops to humans each month; rounded percent attributes within their documented rounding",
    "C05": "meat energy[m] == sum over species of slaughter[m] x per-head kcal of its class x (1 - distribution waste) (monthly in people rounds, total in the feed round); milk[m] == milking head[m] x yield/12 x 610 kcal/kg x (1-dist)(1-retail); final-round feed charge >= feed eaten by the final herd run; grass used <= grass given; a round charging no feed ran its herds on no feed",
    "C16": "the run itself: completes without exception or sys.exit, every built-in assertion passes, no validation banner printed, headline finite and >= 0, caller's options untouched",
}["C16"]


BASELINE_LAYER_Q = (("ARG", "yaml_net_baseline"), ("USA", "yaml_net_baseline"), ("LSO", "yaml_net_baseline"), ("IND", "yaml_gross_baseline"), ("WOR", "g_baseline"))
BASELINE_LAYER_T = BASELINE_LAYER_Q + (("LUX", "yaml_net_baseline"), ("NGA", "yaml_net_baseline"), ("JPN", "yaml_gross_baseline"), ("DJI", "yaml_net_baseline"), ("BRA", "yaml_gross_baseline"))


def baseline_job(job):
    """one run of the baseline-family deviation layer, judged by the C16 monitor only"""
    pipeline.init()
    pipeline.run_job.want = ("C16",)
    out, st = pipeline.run_job(job)
    if st.get("harness_error"):
        return {"error": st["harness_error"], "job": list(job[:3])}
    return {"v": out["C16"], "failed": bool(st.get("failed"))}


def run(tier, seed):
    from .. import common, options
    # the shared exploration takes its single deviations from the catastrophe presets only (stock reserve "zero"); interactions of an option
    # with the baseline family's defaults (stock reserve kept, baseline climate, no waste) are reached from the baseline presets
    bjobs = []
    for iso, pn in (BASELINE_LAYER_Q if tier == "quick" else BASELINE_LAYER_T):
        base = options.preset(pn)
        bjobs += [(iso, pn, tag, o) for tag, o in options.single_deviations(base)]
    bres = common.pmap(baseline_job, bjobs, init_fn=pipeline.init, chunksize=1)
    berr = [r for r in bres if "error" in r]
    if berr:
        raise RuntimeError("baseline layer harness errors: %s" % berr[:2])
    res = pipeline.run_property("C16", tier, seed, ORACLE,
                                ["CBC and HiGHS are trusted as LP solvers (oracles for one enumerated instance each)",
                                 "cumulative clauses use 1e-5 relative + 1e-6 absolute (sums of up to 120 solver values)"])
    res["violations"] = res["violations"] + [v for r in bres for v in r["v"]]
    cov = res["coverage"]
    cov["baseline_family_layer"] = {"runs": len(bjobs), "bases": [list(b) for b in (BASELINE_LAYER_Q if tier == "quick" else BASELINE_LAYER_T)],
                                    "what": "every single deviation of the baseline-family presets on these countries / the world", "runs_that_failed": sum(1 for r in bres if r.get("failed"))}
    cov["executions"] += len(bjobs)
    return res


def replay(rp):
    return pipeline.replay("C16", rp)
