"""C04 - decided on the shared pipeline executions (mc/pipeline.py); this module only selects its monitor."""
from .. import pipeline

ORACLE = {
    "C01": "ledger audit written from the supplies: all variables >= 0; stored food cumulative use <= initial stock (== at the last month in people-maximising rounds when stock may be carried between years; no use after month 12 otherwise); crops cumulative use <= cumulative harvest (== at the last month); meat cumulative eaten/(1-waste) <= cumulative slaughter (same-month in the no-storage regime); SCP and sugar monthly use <= monthly output; seaweed growth-and-harvest recurrence, biomass within [initial, max density x built area], used area within [initial built, built]; feed/biofuel == charged series (people rounds), <= ceiling and feed non-increasing (feed round)",
    "C02": "an independently formulated LP (cumulative 'what exists so far' constraints built only from the captured supplies, waste factors, intake caps, charge/ceilings and pinned bands) solved with HiGHS; |optimum_CBC - optimum_HiGHS| <= 1e-5 relative; a reference that is infeasible where the model reports optimal is a violation",
    "C03": "relations between the rounds of one run: final < T-0.1 => feed+biofuel from human-edible food <= 0.1 percent-fed-equivalent every month and final >= no-feed round - 0.05; no-feed round >= T => final >= T - 0.05; every round and month feed <= feed demand schedule and biofuel <= biofuel demand schedule (recomputed from annual baselines and shut-off months), zero from the shut-off month on",
    "C04": "headline == min over months of the summed per-food kcal-equivalent series / daily need; each series == captured variable value x 1e9/(30 x POP) (seaweed x its kcal factor); |headline - first-stage optimum| <= 0.01 %; CSV cell == returned series cell (1e-9); immediate + new-stored == crops to humans each month; rounded percent attributes within their documented rounding",
    "C05": "meat energy[m] == sum over species of slaughter[m] x per-head kcal of its class x (1 - distribution waste) (monthly in people rounds, total in the feed round); milk[m] == milking head[m] x yield/12 x 610 kcal/kg x (1-dist)(1-retail); final-round feed charge >= feed eaten by the final herd run; grass used <= grass given; a round charging no feed ran its herds on no feed",
    "C16": "the run itself: completes without exception or sys.exit, every built-in assertion passes, no validation banner printed, headline finite and >= 0, caller's options untouched",
}["C04"]


TITLES = ("plain title", "run v1.5", "a.b.c", "ends with a dot.", "comma, space and (brackets)", "slash/colon:star*", "percent 50% & unicode \u00e9", ".starts with a dot")


def title_job(j):
    """the run title is an input too: one complete run per title of the menu (dots, commas, characters the model replaces in file
    names); the full C04 monitor - headline, breakdown and the table each round saved under its documented name
    <title with \\/*?:"<>| replaced by _>_ykcals.csv - is applied to every round after the scenario has finished"""
    import os
    import re
    import sys
    from .. import options
    iso, pn, title = j
    pipeline.init()
    opts = options.preset(pn)
    opts["NMONTHS"] = 48
    cap = pipeline.execute(iso, opts, title)
    key = {"iso3": iso, "preset": pn, "title": title}
    rp = {"title_case": [iso, pn, title]}
    vs = []
    if cap["error"]:
        from ..common import violation
        vs.append(violation("saved_table_equals_result", dict(key, column="run"), "%s with title %r did not complete: %s" % (iso, title, cap["error"]), rp))
    else:
        vs = pipeline.mon_c04(cap, key, rp)
    rdir = os.path.join(sys.modules["src.optimizer.interpret_results"].repo_root, "results")
    stem = re.sub(r'[\\/*?:"<>|\n]', "_", title)
    for f in os.listdir(rdir):
        if f.startswith(stem) or f.startswith(stem.rsplit(".", 1)[0]) and stem.rsplit(".", 1)[0]:
            try:
                os.remove(os.path.join(rdir, f))
            except (FileNotFoundError, IsADirectoryError):
                pass
    return {"v": vs, "rounds": len(cap["interp"])}


def run(tier, seed):
    from .. import common
    tjobs = [(iso, "ms_example_resilient", t) for iso in (("NZL",) if tier == "quick" else ("NZL", "USA", "IND")) for t in TITLES]
    tres = common.pmap(title_job, tjobs, init_fn=pipeline.init, chunksize=1)
    res = pipeline.run_property("C04", tier, seed, ORACLE,
                                ["CBC and HiGHS are trusted as LP solvers (oracles for one enumerated instance each)",
                                 "cumulative clauses use 1e-5 relative + 1e-6 absolute (sums of up to 120 solver values)"])
    res["violations"] = res["violations"] + [v for r in tres for v in r["v"]]
    cov = res["coverage"]
    cov["title_alphabet"] = {"titles": list(TITLES), "runs": len(tjobs), "rounds_checked": sum(r["rounds"] for r in tres)}
    cov["executions"] += len(tjobs)
    return res


def replay(rp):
    if "title_case" in rp:
        return title_job(tuple(rp["title_case"]))["v"]
    return pipeline.replay("C04", rp)
