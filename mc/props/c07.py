"""C07 Herd feeding accounts for energy and starvation consistently.

(i) full product on AnimalSpecies.feed_the_species called directly;
(ii) the herd-engine executions with a reference feeder run in lock-step (mc/herd.py)."""
import itertools

from .. import common, herd
from ..common import violation

REQ = (0.0, 1.0, 7.5)
LEVELS = (0.0, 0.3, 0.5, 0.9, 1.0, 2.0)
HERDS = (0, 1, 100, 10 ** 6)


def direct_case(R, gmul, fmul, rum, pop):
    from src.food_system.animal_populations import AnimalSpecies
    from src.food_system.food import Food
    a = AnimalSpecies("probe", "probe")
    a.digestion_efficiency = {"grass": 0.6, "feed": 0.8}
    a.current_population = pop
    a.population_fed = 0
    a.NE_balance = Food(R, 0, 0)
    g0, f0 = gmul * R / 0.6, fmul * R / 0.8
    if R == 0:
        g0, f0 = gmul, fmul
    g, f = Food(g0, 0, 0), Food(f0, 0, 0)
    g2, f2 = a.feed_the_species(g, f, rum)
    key = {"fn": "feed_the_species", "case": repr([R, gmul, fmul, rum, pop])}
    rp = {"direct": [R, gmul, fmul, rum, pop]}
    vs = []
    gu, fu = g0 - g2.kcals, f0 - f2.kcals
    d = "R=%r grass=%r feed=%r ruminant=%r herd=%r -> grass_used=%r feed_used=%r fed=%r balance=%r" % (
        R, g0, f0, rum, pop, gu, fu, a.population_fed, a.NE_balance.kcals)
    tol = 1e-9 * max(1.0, R)
    if gu < -tol or gu > g0 + tol or fu < -tol or fu > f0 + tol:
        vs.append(violation("used_within_supplied", key, d, rp))
    if not rum and abs(gu) > tol:
        vs.append(violation("grass_only_for_ruminants", key, d, rp))
    delivered = gu * 0.6 + fu * 0.8
    if delivered > R + tol:
        vs.append(violation("delivered_within_required", key, d, rp))
    if R > 0:
        avail = (g0 * 0.6 if rum else 0.0) + f0 * 0.8
        frac = min(1.0, avail / R)
        if not common.close(delivered, min(R, avail), rel=1e-9):
            vs.append(violation("delivers_what_is_available", key, d, rp))
        if a.population_fed > pop:
            vs.append(violation("fed_within_herd", key, d, rp))
        if frac >= 1.0 - 1e-12:
            if a.population_fed != pop:
                vs.append(violation("fed_equals_herd_when_met", key, d, rp))
        elif abs(a.population_fed - pop * frac) > 0.5 + 1e-6 * pop:
            vs.append(violation("fed_is_herd_times_fraction", key, d + " expected %r" % (pop * frac), rp))
        if not common.close(a.NE_balance.kcals, R - min(R, avail), rel=1e-9, abs_=1e-12):
            vs.append(violation("balance_is_energy_still_owed", key, d, rp))
    return vs, (round(gu, 9), round(fu, 9), a.population_fed)


REP_LEVELS = ((0.4, 0.4), (1.5, 0.0), (0.0, 1.5), (3.0, 3.0))


def representation_job(job):
    """the same whole-number monthly supplies written as float64 arrays (what the model passes), as lists of Python ints and as
    integer arrays (what a caller testing with round numbers passes; Food keeps what it is given): feed used, grass used and every
    herd trajectory must be identical, and the energy credited to the herds must be covered by 0.8 x feed used + 0.6 x grass used"""
    iso, strat, order = job
    import numpy as np
    out = {"v": [], "n": 0, "states": 0}
    try:
        need_f, need_g = herd.month0_need(iso, strat)
        months = 6

        def mk(vals, rep):
            n = len(vals)
            k = {"float64 array": np.array(vals, dtype=float), "int list": [int(v) for v in vals], "int64 array": np.array(vals, dtype=np.int64)}[rep]
            return herd._Food(kcals=k, fat=np.zeros(n), protein=np.zeros(n), kcals_units="billion kcals each month",
                              fat_units="thousand tons each month", protein_units="thousand tons each month")

        def run(feed, grass, rep):
            with common.quiet():
                animals, fu, gu = herd._ap.main(iso, mk(feed, rep), mk(grass, rep), strat, None, remove_first_month=0,
                                                kcals_per_head_meat_dict=herd.KCALS_PER_HEAD if order == "meat" else None)
            traj = {a.animal_type: (np.asarray(a.population, dtype=float), np.asarray(a.population_starving_pre_slaughter, dtype=float)) for a in animals}
            return np.asarray(fu.kcals, dtype=float), np.asarray(gu.kcals, dtype=float), traj
        for lf, lg in REP_LEVELS:
            feed = [float(max(1, round(lf * need_f))) if lf else 0.0] * months
            grass = [float(max(1, round(lg * need_g))) if lg else 0.0] * months
            ref = run(feed, grass, "float64 array")
            for rep in ("int list", "int64 array"):
                out["n"] += 1
                out["states"] += months
                got = run(feed, grass, rep)
                key = {"iso3": iso, "strategy": strat, "order": order, "supplies": "feed %r grass %r per month written as %s" % (feed[0], grass[0], rep)}
                rp = {"representation": [iso, strat, order]}
                for nm, a, b in (("feed", got[0], ref[0]), ("grass", got[1], ref[1])):
                    if a.shape != b.shape or not np.allclose(a, b, rtol=1e-12, atol=1e-12):
                        m = int(np.argmax(np.abs(a - b))) if a.shape == b.shape else 0
                        out["v"].append(violation(nm + "_used_matches_reference", key, "%s month %d: %s used %r when the supplies are written as %s, %r when the same numbers are float64" % (
                            iso, m, nm, float(a[m]), rep, float(b[m])), rp))
                for sp in ref[2]:
                    for nm, a, b in (("head count", got[2][sp][0], ref[2][sp][0]), ("starving count", got[2][sp][1], ref[2][sp][1])):
                        if a.shape != b.shape or not np.allclose(a, b, rtol=1e-12, atol=1e-9):
                            out["v"].append(violation("starving_count_matches_reference", dict(key, species=sp), "%s %s: %s differs between supplies written as %s and as float64" % (iso, sp, nm, rep), rp))
                            break
    except Exception as e:
        import traceback
        return {"error": "representation %r: %r %s" % (job, e, traceback.format_exc()[-400:])}
    return out


def run(tier, seed):
    herd.init()
    vs = []
    outs = set()
    n = 0
    levels = LEVELS if tier == "quick" else LEVELS + (0.1, 0.49, 0.51, 0.75, 0.999, 5.0)
    for R, gm, fm, rum, pop in itertools.product(REQ, levels, levels, (True, False), HERDS):
        v, o = direct_case(R, gm, fm, rum, pop)
        n += 1
        vs.extend(v)
        outs.add(o)
    cov, hv, errors = herd.explore("C07", tier, seed)
    if errors:
        raise RuntimeError("herd harness errors: %s" % (errors[:3],))
    isos = herd.countries()
    sel = ["ISL", "LUX", "USA", "IND", "WOR"] + [i for i in common.rotate(isos, seed, 6 if tier == "quick" else 40) if i not in ("ISL", "LUX", "USA", "IND", "WOR")]
    rjobs = [(iso, strat, order) for iso in sel for strat in herd.STRATEGIES for order in ("meat", "conversion")]
    rres = common.pmap(representation_job, rjobs, init_fn=herd.init, chunksize=2)
    rerr = [r["error"] for r in rres if "error" in r]
    if rerr:
        raise RuntimeError("representation harness errors: %s" % (rerr[:2],))
    for r in rres:
        vs.extend(r["v"])
        cov["executions"] += 2 * r["n"]
        cov["states"] += r["states"]
        cov["transitions"] += r["states"]
        cov["traces_validated_against_impl"] += r["n"]
    cov["supply_representations"] = {"countries": sel, "jobs": len(rjobs), "levels (feed, grass) x month-0 need, rounded to whole billions": [list(l) for l in REP_LEVELS],
                                     "representations": ["float64 array (reference)", "list of Python ints", "int64 array"], "months": 6}
    cov["direct_calls"] = n
    cov["direct_distinct_outcomes"] = len(outs)
    cov["executions"] += n
    cov["states"] += n
    cov["transitions"] += n
    cov["traces_validated_against_impl"] += n
    cov["bound"]["direct"] = "full product R in %s x grass,feed multipliers in %s^2 x ruminant x herd in %s" % (list(REQ), list(levels), list(HERDS))
    cov["oracle"] = ("reference feeder (grass first for ruminants at 0.6, then feed at 0.8, in priority order recomputed from the "
                     "species attributes) predicts feed used, grass used and starving head per species and month; fed <= herd, "
                     "== herd when met, else herd x delivered/required (+-0.5 head for rounding); starving >= 0")
    cov["samples"].append({"direct": [7.5, 0.3, 0.5, True, 100]})
    return {"coverage": cov, "violations": vs + hv,
            "assumptions": ["per-head net energy requirement and digestion type are read from the species objects (inputs, not behaviour)"]}


def replay(rp):
    herd.init()
    if "representation" in rp:
        return representation_job(tuple(rp["representation"])).get("v", [])
    if "direct" in rp:
        return direct_case(*rp["direct"])[0]
    return herd.replay("C07", rp)
