"""C02 - decided on the shared pipeline executions (mc/pipeline.py); this module only selects its monitor."""
from .. import pipeline

ORACLE = {
    "C01": "ledger audit written from the supplies: all variables >= 0; stored food cumulative use <= initial stock (== at the last month in people-maximising rounds when stock may be carried between years; no use after month 12 otherwise); crops cumulative use <= cumulative harvest (== at the last month); meat cumulative eaten/(1-waste) <= cumulative slaughter (same-month in the no-storage regime); SCP and sugar monthly use <= monthly output; seaweed growth-and-harvest recurrence, biomass within [initial, max density x built area], used area within [initial built, built]; feed/biofuel == charged series (people rounds), <= ceiling and feed non-increasing (feed round)",
    "C02": "an independently formulated LP (cumulative 'what exists so far' constraints built only from the captured supplies, waste factors, intake caps, charge/ceilings and pinned bands) solved with HiGHS; |optimum_CBC - optimum_HiGHS| <= 1e-5 relative; a reference that is infeasible where the model reports optimal is a violation",
    "C03": "relations between the rounds of one run: final < T-0.1 => feed+biofuel from human-edible food <= 0.1 percent-fed-equivalent every month and final >= no-feed round - 0.05; no-feed round >= T => final >= T - 0.05; every round and month feed <= feed demand schedule and biofuel <= biofuel demand schedule (recomputed from annual baselines and shut-off months), zero from the shut-off month on",
    "C04": "headline == min over months of the summed per-food kcal-equivalent series / daily need; each series == captured variable value x 1e9/(30 x POP) (seaweed x its kcal factor); |headline - first-stage optimum| <= 0.01 %; CSV cell == returned series cell (1e-9); immediate + new-stored == crops to humans each month; rounded percent attributes within their documented rounding",
    "C05": "meat energy[m] == sum over species of slaughter[m] x per-head kcal of its class x (1 - distribution waste) (monthly in people rounds, total in the feed round); milk[m] == milking head[m] x yield/12 x 610 kcal/kg x (1-dist)(1-retail); final-round feed charge >= feed eaten by the final herd run; grass used <= grass given; a round charging no feed ran its herds on no feed",
    "C16": "the run itself: completes without exception or sys.exit, every built-in assertion passes, no validation banner printed, headline finite and >= 0, caller's options untouched",
}["C02"]


REUSE_Q = (("USA", "ms_example_resilient"), ("IND", "yaml_net_baseline"), ("LUX", "ms_worst"), ("ARG", "ms_example_resilient"))
REUSE_T = REUSE_Q + (("BRA", "yaml_net_baseline"), ("DJI", "ms_example_resilient"), ("CHN", "ms_worst"), ("NZL", "yaml_nw_reduced"), ("WOR", "ms_example_resilient"))


def reuse_job(j):
    """call histories on ONE Optimizer object: the instance of the feed-maximising round of a real run (captured with its pinned
    human consumption) is solved on one object with the pins [as captured, x0.95, x0.9 (thorough), as captured] one after the other,
    and the people-maximising instance twice; every reported optimum must equal the optimum a fresh object reports for the same
    call (which the main exploration compares with the independent formulation): a call's result is a function of its arguments."""
    import copy
    from .. import common, options
    from ..common import violation
    iso, pn, factors = j
    pipeline.init()
    Opt = pipeline._P["Optimizer"]
    got = {}
    orig_feed = Opt.optimize_feed_to_animals

    def spy(self, c, t, pins):
        got.setdefault("feed", (copy.deepcopy(c), copy.deepcopy(t), copy.deepcopy(pins)))
        return orig_feed(self, c, t, pins)
    Opt.optimize_feed_to_animals = spy
    try:
        cap = pipeline.execute(iso, options.preset(pn), "c02reuse_%s_%s" % (pn, iso), want_inputs=True)
    finally:
        Opt.optimize_feed_to_animals = orig_feed
    out = {"v": [], "n": 0, "skipped": None}
    import os, sys
    rdir = os.path.join(sys.modules["src.optimizer.interpret_results"].repo_root, "results")
    for f in os.listdir(rdir):
        if f.startswith("c02reuse_%s_%s" % (pn, iso)):
            try:
                os.remove(os.path.join(rdir, f))
            except FileNotFoundError:
                pass
    if cap["error"]:
        out["skipped"] = cap["error"]
        return out

    def scaled(pins, k):
        return {name: (v * k if hasattr(v, "kcals") and k != 1.0 else copy.deepcopy(v)) for name, v in pins.items()}

    def call(o, kind, c, t, pins=None):
        with common.quiet():
            try:
                if kind == "feed":
                    return float(o.optimize_feed_to_animals(c, t, pins)[3])
                return float(o.optimize_to_humans(c, t)[3])
            except AssertionError:
                return None
    key = {"iso3": iso, "preset": pn}
    rp = {"reuse": [iso, pn, list(factors)]}
    if "feed" in got:
        c, t, pins = got["feed"]
        seq = [1.0] + list(factors) + [1.0]
        fresh = {}
        for k in set(seq):
            c1, t1 = copy.deepcopy(c), copy.deepcopy(t)
            with common.quiet():
                o = Opt(c1, t1)
            fresh[k] = call(o, "feed", c1, t1, scaled(pins, k))
        c1, t1 = copy.deepcopy(c), copy.deepcopy(t)
        with common.quiet():
            o = Opt(c1, t1)
        for i, k in enumerate(seq):
            out["n"] += 1
            v = call(o, "feed", c1, t1, scaled(pins, k))
            w = fresh[k]
            out["vals"] = out.get("vals", []) + [w]
            if (v is None) != (w is None) or (v is not None and abs(v - w) > 1e-5 * max(1.0, abs(w))):
                out["v"].append(violation("optimum_independent_of_earlier_calls", dict(key, call="feed round, call %d of %s on one object" % (i + 1, seq)),
                                          "%s %s: feed-maximising call %d (pinned human consumption x%s) on an Optimizer object used before reports %r; a fresh object reports %r for the same arguments" % (iso, pn, i + 1, k, v, w), rp))
                break
    if cap.get("inputs"):
        c, t = cap["inputs"][0]
        c1, t1 = copy.deepcopy(c), copy.deepcopy(t)
        with common.quiet():
            o = Opt(c1, t1)
        a = call(o, "humans", c1, t1)
        b = call(o, "humans", c1, t1)
        out["n"] += 2
        if (a is None) != (b is None) or (a is not None and abs(a - b) > 1e-5 * max(1.0, abs(a))):
            out["v"].append(violation("optimum_independent_of_earlier_calls", dict(key, call="people round twice on one object"),
                                      "%s %s: people-maximising round reports %r, and %r when the same object solves the same arguments again" % (iso, pn, a, b), rp))
    return out


def run(tier, seed):
    from .. import common
    rjobs = [(iso, pn, (0.95,) if tier == "quick" else (0.95, 0.9)) for iso, pn in (REUSE_Q if tier == "quick" else REUSE_T)]
    rres = common.pmap(reuse_job, rjobs, init_fn=pipeline.init, chunksize=1)
    res = pipeline.run_property("C02", tier, seed, ORACLE,
                                ["CBC and HiGHS are trusted as LP solvers (oracles for one enumerated instance each)",
                                 "cumulative clauses use 1e-5 relative + 1e-6 absolute (sums of up to 120 solver values)"])
    # deepening: full product of tiny (3- and 5-month) programmes on the real Optimizer, same oracles
    from .. import tiny
    t = tiny.explore(tier)
    cov = res["coverage"]
    cov["tiny_instance_product"] = {k: t[k] for k in ("n", "solved", "distinct_optima", "bound")}
    for k in ("executions", "traces_validated_against_impl", "lp_instances"):
        cov[k] += t["n"]
    cov["states"] += t["solved"] * 3
    cov["transitions"] += t["solved"] * 2
    cov["samples"].append({"tiny": next(iter(tiny.instances(tier)))})
    res["violations"] = res["violations"] + t["C02"] + [v for r in rres for v in r["v"]]
    cov["optimizer_object_reuse"] = {"instances": [list(j[:2]) for j in rjobs], "calls_on_reused_objects": sum(r["n"] for r in rres),
                                     "skipped": [r["skipped"] for r in rres if r["skipped"]],
                                     "feed_calls_without_an_optimum (not judged)": sum(1 for r in rres for w in r.get("vals", []) if w is None),
                                     "distinct_feed_optima": len({round(w, 3) for r in rres for w in r.get("vals", []) if w is not None}),
                                     "histories": "feed round: pins as captured, x0.95%s, as captured on one object; people round twice on one object; each compared with a fresh object" % ("" if tier == "quick" else ", x0.9")}
    cov["executions"] += sum(r["n"] for r in rres)
    return res


def replay(rp):
    if "reuse" in rp:
        return reuse_job((rp["reuse"][0], rp["reuse"][1], tuple(rp["reuse"][2])))["v"]
    if "tiny" in rp:
        from .. import tiny
        return tiny.replay("C02", rp["tiny"])
    return pipeline.replay("C02", rp)
