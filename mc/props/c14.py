"""C14 A run's result depends only on its own inputs.

sequences(d) over a pool of (country, scenario, horizon) runs chosen to differ in every process-global the code
touches; each sequence runs in one fresh process; the digest of every run in every history must equal, bit for
bit, the digest of that run alone in a fresh process (also repeated, and under other PYTHONHASHSEED values)."""
import hashlib
import itertools
import json
import os
import subprocess
import sys

from .. import common, options
from ..common import violation

POOL = [
    ("LUX", "ms_example_resilient", 120, {}),     # population < 1e7, catastrophe nutrition, all resilient foods
    ("USA", "yaml_net_baseline", 120, {}),        # baseline nutrition, no resilient foods, continued feed
    ("IND", "ms_worst", 48, {}),                  # short horizon, no storage between years, threshold 10
    ("WOR", "g_example_resilient", 120, {}),      # world scale
    ("ARG", "yaml_nw_reduced", 84, {}),           # another horizon, reduced breeding
    ("SLV", "ms_example_resilient", 120, {}),     # triggers the model's rewrite of known-bad options
    # the same country again with numeric overrides: anything remembered per country (tables, caches) shows here
    ("USA", "yaml_net_baseline", 120, {"meat_cattle_head": 20000000, "kg_meat_per_large_animal": 150.0,
                                        "CROP_PRODUCTION_MULTIPLIER": 0.5, "MINIMUM_PERCENT_FED_BEFORE_NONHUMAN_CONSUMPTION_ALLOWED": 50}),
    ("ARG", "yaml_nw_reduced", 48, {"chicken_head": 1000000, "GRASSES_PRODUCTION_MULTIPLIER": 2, "RATIO_STOCKS_UNTOUCHED": 0.5}),
    # a run that takes the rare "round 2 abandoned" path of the controller (mc/rare_paths.json) and the same country under a
    # preset that does charge feed: a data-dependent decision remembered per country shows here
    ("LSO", "yaml_nw_reduced", 120, {}),
    ("LSO", "yaml_net_baseline", 120, {"shutoff": "continued_after_10_percent_fed"}),
]


def digest_result(res):
    import numpy as np
    from src.food_system.food import Food
    h = hashlib.sha256()
    parts = {}
    parts["headline"] = repr(float(res.percent_people_fed))
    for k in sorted(vars(res)):
        v = getattr(res, k)
        if isinstance(v, Food):
            hh = hashlib.sha256()
            for a in (v.kcals, v.fat, v.protein):
                hh.update(np.asarray(a, dtype=float).tobytes())
            hh.update(repr(v.units).encode())
            parts[k] = hh.hexdigest()[:12]
        elif isinstance(v, dict) and k in ("meat_dictionary", "animal_population_dictionary"):
            hh = hashlib.sha256()
            for kk in sorted(v):
                hh.update(kk.encode())
                hh.update(np.asarray(v[kk], dtype=float).tobytes())
            parts[k] = hh.hexdigest()[:12]
    h.update(json.dumps(parts, sort_keys=True).encode())
    return h.hexdigest()[:16], parts


def label_of(p):
    return "%s/%s/%d%s" % (p[0], p[1], p[2], "+overrides" if p[3] else "")


def one_run(iso, pn, nm, title, overrides=None, runner=None):
    import copy
    import numpy as np
    from src.scenarios.run_model_no_trade import ScenarioRunnerNoTrade
    from src.scenarios.run_scenario import ScenarioRunner
    from src.food_system.food import Food
    opts = options.clean(options.preset(pn))
    opts["NMONTHS"] = nm
    opts.update(overrides or {})
    before = copy.deepcopy(opts)
    with common.quiet():
        if iso == "WOR":
            r = ScenarioRunner()
            c, t, l = r.set_depending_on_option(opts)
            res = r.run_and_analyze_scenario(c, t, l, False, False, "", None, False, "world", "WOR", title=title)
        else:
            out = (runner or ScenarioRunnerNoTrade()).run_model_no_trade(title=title, create_pptx_with_all_countries=False, show_country_figures=False,
                                                                         show_map_figures=False, add_map_slide_to_pptx=False, scenario_option=opts,
                                                                         countries_list=[iso], return_results=True)
            res = list(out[3].values())[0]
    dg, parts = digest_result(res)
    if iso != "WOR":
        # everything the call returns belongs to the run's result: the population considered, the population fed and which countries it reports
        parts["returned_aggregate"] = [repr(float(out[1])), repr(float(out[2]))]
        parts["returned_countries"] = sorted(out[3].keys())
        dg = common.digest([dg, parts["returned_aggregate"], parts["returned_countries"]])
    conv = {k: repr(v) for k, v in sorted(vars(Food.conversions).items())}
    return dg, parts, opts == before, common.digest(conv)


def seq_job(seq):
    """one history in one fresh process"""
    common.sandbox()
    out = []
    shared = None
    seq0 = seq
    if seq and seq[0] == "shared":
        # the same runner object serves every run of the history (as run_many_options and the plotting scripts use it)
        from src.scenarios.run_model_no_trade import ScenarioRunnerNoTrade
        seq = seq[1]
        with common.quiet():
            shared = ScenarioRunnerNoTrade()
    for i, idx in enumerate(seq):
        iso, pn, nm, ov = POOL[idx]
        try:
            dg, parts, unmodified, conv = one_run(iso, pn, nm, "c14_%d_%s" % (os.getpid(), i), ov, runner=shared if iso != "WOR" else None)
            out.append({"run": idx, "digest": dg, "parts": parts, "options_unmodified": unmodified, "globals": conv})
        except BaseException as e:
            out.append({"run": idx, "error": repr(e)[:200]})
    return {"seq": list(seq), "runs": out, "shared_runner": shared is not None}


BATCH = ["ALB", "AUS", "LUX", "SLV", "USA"]       # ALB and SLV trigger the model's rewrite of known-bad options
BATCH_PRESET, BATCH_NMONTHS = "ms_example_resilient", 120


def batch_job(isos):
    """one multi-country call (one option dictionary shared by all the countries, as the YAML runner does) in a fresh process"""
    common.sandbox()
    import copy
    from src.scenarios.run_model_no_trade import ScenarioRunnerNoTrade
    opts = options.clean(options.preset(BATCH_PRESET))
    opts["NMONTHS"] = BATCH_NMONTHS
    before = copy.deepcopy(opts)
    try:
        with common.quiet():
            out = ScenarioRunnerNoTrade().run_model_no_trade(title="c14b_%d" % os.getpid(), create_pptx_with_all_countries=False, show_country_figures=False,
                                                             show_map_figures=False, add_map_slide_to_pptx=False, scenario_option=opts,
                                                             countries_list=list(isos), return_results=True)
        runs = {}
        for iso, res in out[3].items():
            dg, parts = digest_result(res)
            runs[iso] = {"digest": dg, "parts": parts}
        return {"isos": list(isos), "runs": runs, "options_unmodified": opts == before, "aggregate": [repr(float(out[1])), repr(float(out[2]))]}
    except BaseException as e:
        return {"isos": list(isos), "error": repr(e)[:200]}


# ------------------------------------------------------------------ deviation histories: anything remembered per country but depending on an option
DEV_PRESET, DEV_NMONTHS = "ms_example_resilient", 72


def table_families(iso):
    """custom country-table parameters (any column of the shipped table can be overridden through the option dictionary): one
    deviation per column family, every numeric non-zero cell of the family halved.  Read with the csv module: the parent process
    must not import the code under test."""
    import csv
    import re
    path = os.path.join(common.REPO, "data", "no_food_trade", "computer_readable_combined.csv")
    with open(path, newline="") as f:
        rows = [r for r in csv.DictReader(f) if r.get("iso3") == iso]
    if not rows:
        return []
    row = rows[0]
    fams = {}
    for k, v in row.items():
        if k in ("iso3", "country", "") or k.endswith("_head") or k.endswith("_slaughter"):
            continue
        try:
            x = float(v)
        except (TypeError, ValueError):
            continue
        if x == 0 or x != x:
            continue
        fam = re.sub(r"(_(jan|feb|mar|apr|may|jun|jul|aug|sep|oct|nov|dec)|[-_]?-?\d+)$", "", k)
        fams.setdefault(fam, {})[k] = x * 0.5
    return [("table:%s x0.5" % fam, cells) for fam, cells in sorted(fams.items())]


def dev_menu(iso=None):
    base = options.clean(options.preset(DEV_PRESET))
    base["NMONTHS"] = DEV_NMONTHS
    out = []
    for tag, o in options.single_deviations(base):
        o = options.clean(o)
        diff = {k: v for k, v in o.items() if base.get(k) != v}
        if diff:
            out.append((tag, diff))
    if iso:
        out.extend(table_families(iso))
    return out


def dev_history_job(job):
    """one fresh process: [the country under `first` options, then the same country under `second` options]; digest of the second run"""
    iso, first, second = job
    common.sandbox()
    out = {"iso3": iso, "first": first, "second": second}
    try:
        if first is not None:
            try:
                one_run(iso, DEV_PRESET, DEV_NMONTHS, "c14d_%d_a" % os.getpid(), first[1])
            except BaseException as e:
                # the earlier run may itself be refused by the model's input validation (e.g. a halved seasonality no longer
                # sums to one): a refused or failed run is still part of the history, the judged run must not depend on it
                out["first_run_failed"] = repr(e)[:120]
        dg, parts, unmodified, conv = one_run(iso, DEV_PRESET, DEV_NMONTHS, "c14d_%d_b" % os.getpid(), second[1] if second else None)
        out.update(digest=dg, parts=parts)
    except BaseException as e:
        out["error"] = repr(e)[:200]
    return out


def alone_subprocess(idx, hashseed):
    env = {k: v for k, v in os.environ.items() if k != "VERIF_SCRATCH_BASE"}
    env["PYTHONHASHSEED"] = str(hashseed)
    p = subprocess.run([sys.executable, "-m", "mc.props.c14", str(idx)], cwd=common.VERIF, env=env, capture_output=True, text=True)
    line = [l for l in p.stdout.splitlines() if l.startswith("RESULT ")]
    if not line:
        return {"error": (p.stdout + p.stderr)[-400:]}
    return json.loads(line[-1][7:])


def run(tier, seed):
    d = 2 if tier == "quick" else 3
    seqs = [s for n in range(1, d + 1) for s in itertools.product(range(len(POOL)), repeat=n)]
    nonwor = [i for i, p in enumerate(POOL) if p[0] != "WOR"]
    sh = nonwor[:4] if tier == "quick" else nonwor
    shared_seqs = [("shared", s) for s in itertools.product(sh, repeat=2)] + ([("shared", s) for s in itertools.product(nonwor[:3], repeat=3)] if tier == "thorough" else [])
    res = common.pmap(seq_job, seqs + shared_seqs, fresh_process_per_job=True)
    from concurrent.futures import ThreadPoolExecutor
    hashseeds = (1, 12345) if tier == "quick" else (1, 12345, 987654321)
    with ThreadPoolExecutor(8) as ex:
        alone = list(ex.map(lambda a: (a, alone_subprocess(*a)), [(i, hs) for i in range(len(POOL)) for hs in hashseeds]))
    vs = []
    ref = {}
    for r in res:
        if len(r["seq"]) == 1 and not r.get("shared_runner"):
            ref[r["seq"][0]] = r["runs"][0]
    n_runs = 0
    states = set()
    for r in res:
        for pos, run in enumerate(r["runs"]):
            n_runs += 1
            idx = run["run"]
            label = label_of(POOL[idx])
            hist = [label_of(POOL[i]) for i in r["seq"][:pos]]
            key = {"run": label, "history": (" -> ".join(hist) or "(alone)") + (" [one runner object for all]" if r.get("shared_runner") else "")}
            rp = {"seq": r["seq"][:pos + 1], "shared_runner": bool(r.get("shared_runner"))}
            if "error" in run:
                if "error" not in ref.get(idx, {}):
                    vs.append(violation("run_fails_after_history", key, "%s fails after %s: %s" % (label, hist, run["error"]), rp))
                continue
            states.add(run["globals"])
            if not run["options_unmodified"]:
                vs.append(violation("options_unmodified", key, "%s: caller's option dictionary modified" % label, rp))
            base = ref.get(idx)
            if base and "digest" in base and run["digest"] != base["digest"]:
                diff = sorted(k for k in set(run["parts"]) | set(base["parts"]) if run["parts"].get(k) != base["parts"].get(k))
                vs.append(violation("result_independent_of_history", key, "%s after [%s] differs from the same run alone in: %s (headline %s vs %s)" % (
                    label, " -> ".join(hist), diff[:6], run["parts"].get("headline"), base["parts"].get("headline")), rp))
    for (idx, hs), a in alone:
        n_runs += 1
        label = label_of(POOL[idx])
        if "error" in a:
            if "error" not in ref.get(idx, {}):
                vs.append(violation("run_fails_after_history", {"run": label, "history": "(alone, PYTHONHASHSEED=%s)" % hs}, a["error"], {"seq": [idx]}))
        elif ref.get(idx, {}).get("digest") != a["digest"]:
            vs.append(violation("result_reproducible_across_processes", {"run": label, "history": "(alone, PYTHONHASHSEED=%s)" % hs},
                                "%s alone under PYTHONHASHSEED=%s differs from the run alone under 0" % (label, hs), {"seq": [idx]}))
    # multi-country calls: every country's result inside a batch equals its result from a single-country call
    kmax = 2 if tier == "quick" else len(BATCH)
    subsets = [c for n in range(1, kmax + 1) for c in itertools.combinations(BATCH, n)]
    bres = common.pmap(batch_job, subsets, fresh_process_per_job=True)
    single = {r["isos"][0]: r for r in bres if len(r["isos"]) == 1}
    single_by_name = {name: run for r in single.values() for name, run in r.get("runs", {}).items()}   # results are keyed by country name
    compared = 0
    for r in bres:
        key = {"run": "batch %s/%d" % (BATCH_PRESET, BATCH_NMONTHS), "history": ",".join(r["isos"])}
        rp = {"batch": r["isos"]}
        if "error" in r:
            if not any("error" in single.get(i, {}) for i in r["isos"]):
                vs.append(violation("run_fails_after_history", key, "the multi-country call %s fails although each country runs alone: %s" % (r["isos"], r["error"]), rp))
            continue
        if not r["options_unmodified"]:
            vs.append(violation("options_unmodified", key, "multi-country call %s: caller's option dictionary modified" % (r["isos"],), rp))
        for iso, run in r["runs"].items():
            n_runs += 1
            base = single_by_name.get(iso)
            compared += 1 if base else 0
            if base and run["digest"] != base["digest"]:
                diff = sorted(k for k in set(run["parts"]) | set(base["parts"]) if run["parts"].get(k) != base["parts"].get(k))
                vs.append(violation("result_independent_of_history", dict(key, run=key["run"] + " " + iso), "%s inside the multi-country call %s differs from the single-country call in: %s (headline %s vs %s)" % (
                    iso, r["isos"], diff[:6], run["parts"].get("headline"), base["parts"].get("headline")), rp))
    # deviation histories: the base run after the same country was run with ONE option family changed must equal the base run alone
    # (thorough: also every deviation run after the base run must equal that deviation run alone)
    dev_isos = ("IND",) if tier == "quick" else ("IND", "VNM", "USA")
    djobs = []
    for iso in dev_isos:
        menu = dev_menu(iso)
        djobs.append((iso, None, None))
        for dv in menu:
            djobs.append((iso, dv, None))
            if tier != "quick":
                djobs.append((iso, None, dv))
                djobs.append((iso, ("base", {}), dv))
    dres = common.pmap(dev_history_job, djobs, fresh_process_per_job=True)
    alone_d = {(r["iso3"], r["second"][0] if r["second"] else None): r for r in dres if r["first"] is None}
    for r in dres:
        if r["first"] is None:
            continue
        n_runs += 2
        base = alone_d.get((r["iso3"], r["second"][0] if r["second"] else None), {})
        what = "%s/%s/%d%s" % (r["iso3"], DEV_PRESET, DEV_NMONTHS, ("+" + r["second"][0]) if r["second"] else "")
        key = {"run": what, "history": "%s with %s" % (r["iso3"], r["first"][0])}
        rp = {"dev_history": [r["iso3"], r["first"], r["second"]]}
        if "error" in r:
            if "error" not in base:
                vs.append(violation("run_fails_after_history", key, "%s fails after the same country was run with %s: %s" % (what, r["first"][0], r["error"]), rp))
        elif "digest" in base and r["digest"] != base["digest"]:
            diff = sorted(k for k in set(r["parts"]) | set(base["parts"]) if r["parts"].get(k) != base["parts"].get(k))
            vs.append(violation("result_independent_of_history", key, "%s after the same country was run with %s differs from the run alone in: %s (headline %s vs %s)" % (
                what, r["first"][0], diff[:6], r["parts"].get("headline"), base["parts"].get("headline")), rp))
    cov = {"executions": len(seqs) + len(alone) + len(subsets) + len(djobs), "states": max(1, len(states)), "transitions": n_runs,
           "traces_validated_against_impl": len(seqs) + len(alone) + len(subsets) + len(djobs),
           "deviation_histories": len(djobs),
           "batches": len(subsets), "batch_results_compared_with_single_calls": compared,
           "distinct_outcomes": len({run.get("digest") for r in res for run in r["runs"]}),
           "runs": n_runs, "histories": len(seqs),
           "bound": {"shared runner object": "%d further histories (every ordered pair over %d non-world runs%s) in which ONE ScenarioRunnerNoTrade object serves every run; the digest covers the returned aggregate and the countries reported" % (len(shared_seqs), len(sh), ", every ordered triple over 3" if tier == "thorough" else ""),
                     "depth": "every ordered sequence of length <= %d over the pool (repeats allowed), one fresh process each" % d,
                     "pool": [label_of(p) for p in POOL], "alone": "every pool run alone under PYTHONHASHSEED in %s" % (list(hashseeds),),
                     "deviation_histories": "for %s: the %s/%d run after the same country was run with each of its %d deviations (every single option-family deviation + every column family of the country table halved through the custom-parameter mechanism; thorough: and each deviation run after the base run), one fresh process each" % (
                         list(dev_isos), DEV_PRESET, DEV_NMONTHS, len(menu)),
                     "batches": "every subset of size <= %d of %s in one multi-country call sharing one option dictionary (%s, %d months), each in a fresh process" % (
                         kmax, BATCH, BATCH_PRESET, BATCH_NMONTHS)},
           "alphabet": "a state is the fingerprint of the process-global settings (Food.conversions) after a run; a transition is one run appended to a history",
           "samples": [{"seq": [label_of(POOL[i]) for i in s]} for s in (seqs[0], seqs[10], seqs[-1])],
           "caps_hit": []}
    return {"coverage": cov, "violations": vs, "assumptions": ["results are bit-for-bit reproducible (same LP text => same CBC pivots), measured on the unchanged tree"]}


def replay(rp):
    if "dev_history" in rp:
        iso, first, second = rp["dev_history"]
        first = tuple(first) if first else None
        second = tuple(second) if second else None
        r = common.pmap(dev_history_job, [(iso, first, second), (iso, None, second)], fresh_process_per_job=True)
        if "error" in r[0] and "error" not in r[1]:
            return [violation("run_fails_after_history", {"run": iso}, r[0]["error"], rp)]
        if r[0].get("digest") != r[1].get("digest"):
            return [violation("result_independent_of_history", {"run": iso}, "differs: %s vs %s" % (r[0].get("parts", {}).get("headline"), r[1].get("parts", {}).get("headline")), rp)]
        return []
    if "batch" in rp:
        r = common.pmap(batch_job, [tuple(rp["batch"])] + [(i,) for i in rp["batch"]], fresh_process_per_job=True)
        vs = []
        if "error" in r[0] or not r[0].get("options_unmodified", True):
            vs.append(violation("options_unmodified", {"history": ",".join(rp["batch"])}, "batch %s: %s" % (rp["batch"], r[0].get("error", "option dictionary modified")), rp))
        for k, iso in enumerate(rp["batch"]):
            for name, b in r[k + 1].get("runs", {}).items():
                a = r[0].get("runs", {}).get(name)
                if a and a["digest"] != b["digest"]:
                    vs.append(violation("result_independent_of_history", {"run": name}, "differs inside the batch: %s vs %s" % (a["parts"].get("headline"), b["parts"].get("headline")), rp))
        return vs
    first = ("shared", tuple(rp["seq"])) if rp.get("shared_runner") else tuple(rp["seq"])
    r = common.pmap(seq_job, [first, (rp["seq"][-1],)], fresh_process_per_job=True)
    a, b = r[0]["runs"][-1], r[1]["runs"][0]
    vs = []
    if a.get("digest") != b.get("digest") or "error" in a:
        vs.append(violation("result_independent_of_history", {"run": str(rp["seq"][-1])}, "differs: %s vs %s" % (a.get("parts", a), b.get("parts", b)), rp))
    if a.get("options_unmodified") is False:
        vs.append(violation("options_unmodified", {"run": str(rp["seq"][-1])}, "caller's option dictionary modified", rp))
    return vs


if __name__ == "__main__":
    common.sandbox()
    i = int(sys.argv[1])
    iso, pn, nm, ov = POOL[i]
    try:
        dg, parts, unmod, conv = one_run(iso, pn, nm, "c14_alone_%d" % os.getpid(), ov)
        print("RESULT " + json.dumps({"digest": dg, "parts": parts}))
    except BaseException as e:
        print("RESULT " + json.dumps({"error": repr(e)[:300]}))
