"""C10 Unit conversions are mutually consistent and anchored to the population's needs.
Full product on Food.in_units over every source triple x target base triple, for 1 (quick)
or 4 (thorough) parameter settings; algebraic laws + an independent factor table as oracle."""
import itertools

from .. import common, units_ref as U
from ..common import violation

SETTINGS = [(7.8e9, 2100.0, 47.0, 51.0), (3.29e8, 2100.0, 61.7, 59.5), (632275.5, 1800.0, 35.0, 70.0), (2.5, 2500.0, 50.0, 50.0)]   # incl. non-integer populations (a scaled or aggregated population need not be whole)
VALS = (3.5, 0.25, 120.0)


def _food():
    common.sandbox()
    with common.quiet():
        from src.food_system.food import Food
    return Food


def mk(Food, labels, shape):
    import numpy as np
    if shape is None:
        return Food(VALS[0], VALS[1], VALS[2], *labels)
    mult = np.arange(1, shape + 1, dtype=float)
    return Food(VALS[0] * mult, VALS[1] * mult, VALS[2] * mult, *labels)


def vals_of(f):
    import numpy as np
    return [np.atleast_1d(np.asarray(x, dtype=float)) for x in (f.kcals, f.fat, f.protein)]


def job(args):
    import numpy as np
    si, kform_list, kb_list = args
    Food = _food()
    pop, kd, fd, pd = SETTINGS[si]
    Food.conversions.set_nutrition_requirements(kcals_daily=kd, fat_daily=fd, protein_daily=pd, include_fat=True,
                                                include_protein=True, population=pop)
    vs = []
    n = 0
    outs = set()

    def bad(clause, detail, rp):
        if sum(1 for v in vs if v["clause"] == clause) < 5:
            vs.append(violation(clause, {"setting": si, "case": detail[:160]}, detail, rp))

    targets = list(itertools.product(U.KCAL_BASES, U.NUTR_BASES, U.NUTR_BASES))
    for kform in kform_list:
        for kb, fb, pb in itertools.product(kb_list, U.NUTR_BASES, U.NUTR_BASES):
            # form-consistent source triples get every clause; mixed-form ones (nutrient forms differing from the
            # calorie form) only round trip and path independence, because in_units derives the form from calories
            scalar_forms = ("", " per month")
            mixed = [(x, y) for x in scalar_forms for y in scalar_forms if (x, y) != (kform, kform)] \
                if kform in scalar_forms and (kb, fb, pb) == ("billion kcals", "thousand tons", "thousand tons") else []
            for fform, pform in [(kform, kform)] + mixed:
                labels = (kb + kform, fb + fform, pb + pform)
                consistent = fform == kform and pform == kform
                shapes = (1, 3) if kform == " each month" else (None,)
                for shape in shapes:
                    try:
                        src = mk(Food, labels, shape)
                    except AssertionError:
                        continue
                    before = [a.copy() for a in vals_of(src)]
                    for tb in targets:
                        rp = {"setting": si, "labels": labels, "shape": shape, "to": tb}
                        n += 1
                        try:
                            out = src.in_units(*tb)
                        except AssertionError as e:
                            bad("conversion_refused", "%s -> %s refused: %r" % (labels, tb, e), rp)
                            continue
                        fk, ff, fp = U.factors((kb, fb, pb), tb, pop, kd, fd, pd)
                        got = vals_of(out)
                        for g, b, f, nm in zip(got, before, (fk, ff, fp), ("kcals", "fat", "protein")):
                            if not np.allclose(g, b * f, rtol=1e-9, atol=0):
                                bad("factor_" + nm, "%s -> %s: %s %r, meaning of the unit names gives %r" % (labels, tb, nm, g.tolist(), (b * f).tolist()), rp)
                        if consistent:
                            want_labels = [tb[0] + kform, tb[1] + kform, tb[2] + kform]
                            if [out.kcals_units, out.fat_units, out.protein_units] != want_labels or out.units != want_labels:
                                bad("form_preserved", "%s -> %s: labels %s / list %s, expected %s" % (labels, tb, [out.kcals_units, out.fat_units, out.protein_units], out.units, want_labels), rp)
                            if out.is_list_monthly() != (shape is not None) or (shape is not None and len(out.kcals) != shape):
                                bad("shape_preserved", "%s -> %s: shape changed" % (labels, tb), rp)
                        # round trip
                        try:
                            back = out.in_units(kb, fb, pb)
                            for g, b, nm in zip(vals_of(back), before, ("kcals", "fat", "protein")):
                                if not np.allclose(g, b, rtol=1e-9, atol=0):
                                    bad("round_trip_" + nm, "%s -> %s -> back: %r != %r" % (labels, tb, g.tolist(), b.tolist()), rp)
                        except AssertionError as e:
                            bad("round_trip_refused", "%s -> %s -> back refused %r" % (labels, tb, e), rp)
                        outs.add(tuple(round(float(g[0]), 9) for g in got))
                        # operand untouched
                        for a, b in zip(vals_of(src), before):
                            if not np.array_equal(a, b):
                                bad("operand_modified", "%s -> %s modified the source" % (labels, tb), rp)
                    # path independence: via every intermediate base triple along the diagonal of the target list
                    if consistent and shape in (None, 1):
                        for mid, tb in itertools.product(targets[::7], targets[::11]):
                            n += 1
                            try:
                                a = src.in_units(*mid).in_units(*tb)
                                b = src.in_units(*tb)
                            except AssertionError as e:
                                bad("path_refused", "%s via %s to %s: %r" % (labels, mid, tb, e), {"setting": si, "labels": labels, "shape": shape, "to": tb, "via": mid})
                                continue
                            for x, y, nm in zip(vals_of(a), vals_of(b), ("kcals", "fat", "protein")):
                                if not np.allclose(x, y, rtol=1e-9, atol=0):
                                    bad("path_independence_" + nm, "%s via %s to %s: %r != direct %r" % (labels, mid, tb, x.tolist(), y.tolist()),
                                        {"setting": si, "labels": labels, "shape": shape, "to": tb, "via": mid})
    if kb_list != [U.KCAL_BASES[0]] or kform_list != [U.FORMS[0]]:
        return {"n": n, "v": vs, "outs": len(outs)}
    # unusual but legal magnitudes: quantities far below one unit, and quantities whose calories are zero while fat and protein are
    # not, under every setting of the fat/protein inclusion flags (a conversion must scale every number whatever is "counted")
    src_b0 = ("billion kcals", "thousand tons", "thousand tons")
    for inc_f, inc_p in itertools.product((True, False), repeat=2):
        Food.conversions.set_nutrition_requirements(kcals_daily=kd, fat_daily=fd, protein_daily=pd, include_fat=inc_f, include_protein=inc_p, population=pop)
        for label, triple in (("tiny", (4e-10, 3e-10, 2e-10)), ("zero calories", (0.0, 1.5, 10.0)), ("zero calories, series", None)):
            if triple is None:
                q = Food(np.zeros(3), np.array([1.5, 2.0, 2.5]), np.array([10.0, 20.0, 30.0]), *[b + " each month" for b in src_b0])
                before = vals_of(q)
            else:
                q = Food(triple[0], triple[1], triple[2], *src_b0)
                before = vals_of(q)
            for tb in targets:
                n += 1
                rp = {"setting": si, "magnitude": label, "flags": [inc_f, inc_p], "to": tb}
                out = q.in_units(*tb)
                f = U.factors(src_b0, tb, pop, kd, fd, pd)
                for g, b, fac, nm in zip(vals_of(out), before, f, ("kcals", "fat", "protein")):
                    if not np.allclose(g, b * fac, rtol=1e-9, atol=0):
                        bad("factor_" + nm, "%s quantity %s (include_fat=%s include_protein=%s) -> %s: %s %r, the unit names mean %r" % (
                            label, [x.tolist() for x in before], inc_f, inc_p, tb, nm, g.tolist(), (b * fac).tolist()), rp)
    Food.conversions.set_nutrition_requirements(kcals_daily=kd, fat_daily=fd, protein_daily=pd, include_fat=True, include_protein=True, population=pop)
    # quantities that reach a form through an operation rather than the constructor: the total (sum / minimum / maximum over months)
    # and the single month of a series must convert exactly like the same quantity written down directly
    src_b = ("billion kcals", "thousand tons", "thousand tons")
    series = mk(Food, tuple(b + " each month" for b in src_b), 3)
    derived = [("get_nutrients_sum", series.get_nutrients_sum(), ""), ("get_min_all_months", series.get_min_all_months(), ""),
               ("get_max_all_months", series.get_max_all_months(), ""), ("get_month(1)", series.get_month(1), " per month"), ("[1]", series[1], " per month")]
    for how, q, form in derived:
        direct = Food(float(q.kcals), float(q.fat), float(q.protein), *[b + form for b in src_b])
        for tb in targets:
            n += 1
            rp = {"setting": si, "derived": how, "to": tb}
            try:
                a, b = q.in_units(*tb), direct.in_units(*tb)
            except AssertionError as e:
                bad("conversion_refused", "%s of a series -> %s refused: %r" % (how, tb, e), rp)
                continue
            want_labels = [x + form for x in tb]
            if [a.kcals_units, a.fat_units, a.protein_units] != want_labels or a.units != want_labels or a.is_list_monthly():
                bad("form_preserved", "%s of a series -> %s: labels %s / list %s / series=%s, the same quantity written down directly gives %s" % (
                    how, tb, [a.kcals_units, a.fat_units, a.protein_units], a.units, a.is_list_monthly(), b.units), rp)
            elif not all(np.allclose(x, y, rtol=1e-12, atol=0) for x, y in zip(vals_of(a), vals_of(b))):
                bad("factor_kcals", "%s of a series -> %s: %s, the same quantity written down directly gives %s" % (how, tb, [v.tolist() for v in vals_of(a)], [v.tolist() for v in vals_of(b)]), rp)
    # numeric representation of the numbers: whole-number quantities written as Python ints, int lists, integer and float32 arrays
    # (Food keeps what it is given) must convert exactly like the same numbers written as float64 - every target, and back
    reps = {"int list": lambda v: [int(x) for x in v], "int64 array": lambda v: np.array(v, dtype=np.int64), "int32 array": lambda v: np.array(v, dtype=np.int32),
            "float list": lambda v: [float(x) for x in v], "float32 array": lambda v: np.array(v, dtype=np.float32), "python int": None}
    whole = ([1000, 2000, 7, 0, 35], [12, 47, 1, 0, 3], [5000, 9, 2, 0, 640])
    for rep, build in reps.items():
        for src_base in (src_b, ("percent people fed",) * 3):
            form = "" if build is None else " each month"
            try:
                if build is None:
                    q = Food(int(whole[0][0]), int(whole[1][0]), int(whole[2][0]), *[b + form for b in src_base])
                    ref = Food(float(whole[0][0]), float(whole[1][0]), float(whole[2][0]), *[b + form for b in src_base])
                else:
                    q = Food(build(whole[0]), build(whole[1]), build(whole[2]), *[b + form for b in src_base])
                    ref = Food(np.array(whole[0], dtype=float), np.array(whole[1], dtype=float), np.array(whole[2], dtype=float), *[b + form for b in src_base])
            except (AssertionError, TypeError, ValueError):
                continue
            before = vals_of(q)
            tol = 1e-6 if "float32" in rep else 1e-9
            for tb in targets:
                n += 1
                rp = {"setting": si, "representation": rep, "from": list(src_base), "to": tb}
                try:
                    a, b = q.in_units(*tb), ref.in_units(*tb)
                    back = a.in_units(*src_base)
                except AssertionError as e:
                    bad("conversion_refused", "%s quantity in %s -> %s refused: %r" % (rep, src_base, tb, e), rp)
                    continue
                for x, y, nm in zip(vals_of(a), vals_of(b), ("kcals", "fat", "protein")):
                    if not np.allclose(x, y, rtol=tol, atol=0):
                        bad("factor_" + nm, "whole numbers written as %s in %s -> %s: %s %r, the same numbers as float64 give %r" % (rep, src_base, tb, nm, x.tolist(), y.tolist()), rp)
                for x, y, nm in zip(vals_of(back), before, ("kcals", "fat", "protein")):
                    if not np.allclose(x, y, rtol=tol, atol=0):
                        bad("round_trip_" + nm, "whole numbers written as %s in %s -> %s -> back: %r != %r" % (rep, src_base, tb, x.tolist(), y.tolist()), rp)
                for x, y in zip(vals_of(q), before):
                    if not np.array_equal(x, y):
                        bad("operand_modified", "%s quantity -> %s modified the source" % (rep, tb), rp)
    # anchors (once per setting)
    need = Food(kd * U.DAYS * pop / 1e9, fd * U.DAYS * pop / 1e9, pd * U.DAYS * pop / 1e9, "billion kcals per month", "thousand tons per month", "thousand tons per month")
    for name, fn, want in (("percent_fed", need.in_units_percent_fed, (100.0, 100.0, 100.0)),
                           ("daily_per_person", need.in_units_kcals_grams_grams_per_person, (kd, fd, pd)),
                           ("kcals_equivalent", need.in_units_kcals_equivalent, (kd, kd, kd)),
                           ("billions_fed", need.in_units_billions_fed, (pop / 1e9,) * 3)):
        out = fn()
        n += 1
        got = (out.kcals, out.fat, out.protein)
        if not all(common.close(g, w, rel=1e-9) for g, w in zip(got, want)):
            bad("anchor_" + name, "monthly requirement of the population converts to %r, expected %r" % (got, want), {"setting": si, "anchor": name})
    return {"n": n, "v": vs, "outs": len(outs)}


# ------------------------------------------------------------------ histories of settings on the one shared conversions object
HIST_MENU = [(p, k, f, q) for p in (7.8e9, 10500.75) for k in (2100.0, 1800.0) for f in (47.0, 61.7) for q in (51.0, 59.5)]
ANCHORS = ("percent_fed", "daily_per_person", "kcals_equivalent", "billions_fed")


def check_at_setting(Food, setting, hist, vs, counters):
    """every conversion of the base triple to all 180 base target triples + the four anchors, against the reference at `setting`"""
    import numpy as np
    pop, kd, fd, pd = setting
    src_b = ("billion kcals", "thousand tons", "thousand tons")
    src = Food(VALS[0], VALS[1], VALS[2], *src_b)
    rp = {"history": [list(x) for x in hist]}
    key = {"history": " -> ".join("%g/%g/%g/%g" % x for x in hist)}

    def bad(clause, detail):
        if sum(1 for v in vs if v["clause"] == clause) < 5:
            vs.append(violation(clause, key, detail, rp))
    for tb in itertools.product(U.KCAL_BASES, U.NUTR_BASES, U.NUTR_BASES):
        counters["n"] += 1
        out = src.in_units(*tb)
        f = U.factors(src_b, tb, pop, kd, fd, pd)
        for g, b, fac, nm in zip(vals_of(out), VALS, f, ("kcals", "fat", "protein")):
            if not np.allclose(g, b * fac, rtol=1e-9, atol=0):
                bad("history_factor_" + nm, "after the settings history %s: %s -> %s gives %s %r, the current setting means %r" % (key["history"], src_b, tb, nm, g.tolist(), b * fac))
    need = Food(kd * U.DAYS * pop / 1e9, fd * U.DAYS * pop / 1e9, pd * U.DAYS * pop / 1e9, "billion kcals per month", "thousand tons per month", "thousand tons per month")
    for name, fn, want in (("percent_fed", need.in_units_percent_fed, (100.0, 100.0, 100.0)),
                           ("daily_per_person", need.in_units_kcals_grams_grams_per_person, (kd, fd, pd)),
                           ("kcals_equivalent", need.in_units_kcals_equivalent, (kd, kd, kd)),
                           ("billions_fed", need.in_units_billions_fed, (pop / 1e9,) * 3)):
        counters["n"] += 1
        out = fn()
        got = (out.kcals, out.fat, out.protein)
        if not all(common.close(g, w, rel=1e-9) for g, w in zip(got, want)):
            bad("history_anchor_" + name, "after the settings history %s the monthly requirement converts to %r, expected %r" % (key["history"], got, want))


def history_job(seqs):
    Food = _food()
    vs = []
    counters = {"n": 0}
    for seq in seqs:
        hist = [HIST_MENU[i] for i in seq]
        Food.conversions = type(Food.conversions)()       # every history starts from the state of a fresh process
        for k, st in enumerate(hist):
            pop, kd, fd, pd = st
            Food.conversions.set_nutrition_requirements(kcals_daily=kd, fat_daily=fd, protein_daily=pd, include_fat=True, include_protein=True, population=pop)
            # a conversion after every assignment (anything remembered from it must not survive the next assignment)
            check_at_setting(Food, st, hist[:k + 1], vs, counters)
    return {"n": counters["n"], "v": vs, "outs": 0, "histories": len(seqs)}


def run(tier, seed):
    nset = 1 if tier == "quick" else len(SETTINGS)
    first = seed % len(SETTINGS) if tier == "quick" else 0
    jobs = [((first + i) % len(SETTINGS), [f], [kb]) for i in range(nset) for f in U.FORMS for kb in U.KCAL_BASES]
    res = common.pmap(job, jobs, chunksize=1)
    d = 2 if tier == "quick" else 3
    seqs = list(itertools.product(range(len(HIST_MENU)), repeat=d))
    hres = common.pmap(history_job, [seqs[i:i + 64] for i in range(0, len(seqs), 64)], chunksize=1)
    res = res + hres
    n = sum(r["n"] for r in res)
    vs = [v for r in res for v in r["v"]]
    cov = {"executions": n, "states": n, "transitions": n, "traces_validated_against_impl": n,
           "distinct_outcomes": sum(r["outs"] for r in res),
           "bound": {"settings (population, kcal, fat, protein per day)": sorted({SETTINGS[j[0]] for j in jobs}),
                     "sources": "every form-consistent triple of the 15 x 18 x 18 unit names (scalar; 1- and 3-month series) + every mixed-form triple of the default bases",
                     "targets": "all 5 x 6 x 6 base triples", "path independence": "intermediates = every 7th, targets = every 11th base triple",
                     "setting histories": "every ordered sequence of %d assignments from a 2x2x2x2 menu (population, kcal, fat, protein) on the one shared conversions object, "
                                          "all 180 base conversions + 4 anchors checked after every assignment: %d histories" % (d, len(seqs))},
           "setting_histories": len(seqs),
           "alphabet": "a state is one (setting, source labels, shape, target) conversion checked against the independent factor table and the algebraic laws",
           "samples": [{"setting": SETTINGS[jobs[0][0]], "from": ["billion kcals each month", "thousand tons each month", "thousand tons each month"],
                        "to": ["percent people fed", "grams per person per day", "effective kcals per person per day"]}],
           "caps_hit": []}
    return {"coverage": cov, "violations": vs,
            "assumptions": ["a month has 30 days and a dry caloric ton 4e6 kcal (documented constants)"]}


def replay(rp):
    import numpy as np
    Food = _food()
    if "history" not in rp:
        pop, kd, fd, pd = SETTINGS[rp["setting"]]
        Food.conversions.set_nutrition_requirements(kcals_daily=kd, fat_daily=fd, protein_daily=pd, include_fat=True, include_protein=True, population=pop)
    if "history" in rp:
        vs = []
        hist = [tuple(x) for x in rp["history"]]
        Food.conversions = type(Food.conversions)()
        for k, st in enumerate(hist):
            Food.conversions.set_nutrition_requirements(kcals_daily=st[1], fat_daily=st[2], protein_daily=st[3], include_fat=True, include_protein=True, population=st[0])
            v = []
            check_at_setting(Food, st, hist[:k + 1], v, {"n": 0})
            if k == len(hist) - 1:
                vs = v
        return vs
    if "magnitude" in rp:
        r = job((rp["setting"], [U.FORMS[0]], [U.KCAL_BASES[0]]))
        return [v for v in r["v"] if v["replay"].get("magnitude") == rp["magnitude"]] or r["v"]
    if "derived" in rp:
        r = job((rp["setting"], [U.FORMS[0]], [U.KCAL_BASES[0]]))
        return [v for v in r["v"] if v["replay"].get("derived") == rp["derived"]] or r["v"]
    if "anchor" in rp:
        r = job((rp["setting"], [U.FORMS[0]], [U.KCAL_BASES[0]]))
        return r["v"]
    if "representation" in rp:
        r = job((rp["setting"], [U.FORMS[0]], [U.KCAL_BASES[0]]))
        return [v for v in r["v"] if v["replay"].get("representation") == rp["representation"]] or r["v"]
    src = mk(Food, rp["labels"], rp["shape"])
    kb, fb, pb = [U.split(l)[0] for l in rp["labels"]]
    try:
        out = (src.in_units(*rp["via"]) if "via" in rp else src).in_units(*rp["to"])
    except AssertionError as e:
        return [violation("conversion_refused", {"setting": rp["setting"]}, "%s -> %s refused: %r" % (rp["labels"], rp["to"], e), rp)]
    f = U.factors((kb, fb, pb), rp["to"], pop, kd, fd, pd)
    vs = []
    for g, b, fac, nm in zip(vals_of(out), vals_of(src), f, ("kcals", "fat", "protein")):
        if not np.allclose(g, b * fac, rtol=1e-9, atol=0):
            vs.append(violation("factor_" + nm, {"setting": rp["setting"]}, "%s -> %s %s: %r vs %r" % (rp["labels"], rp["to"], nm, g.tolist(), (b * fac).tolist()), rp))
    form = U.split(rp["labels"][0])[1]
    want = [rp["to"][0] + form, rp["to"][1] + form, rp["to"][2] + form]
    if out.units != want or [out.kcals_units, out.fat_units, out.protein_units] != want:
        vs.append(violation("form_preserved", {"setting": rp["setting"]}, "labels %s expected %s" % (out.units, want), rp))
    shape = rp.get("shape")
    if "via" not in rp and (out.is_list_monthly() != (shape is not None) or (shape is not None and len(np.atleast_1d(out.kcals)) != shape)):
        vs.append(violation("shape_preserved", {"setting": rp["setting"]}, "%s -> %s: shape changed" % (rp["labels"], rp["to"]), rp))
    if "via" not in rp:
        try:
            back = out.in_units(kb, fb, pb)
            for g, b, nm in zip(vals_of(back), vals_of(src), ("kcals", "fat", "protein")):
                if g.shape != b.shape or not np.allclose(g, b, rtol=1e-9, atol=0):
                    vs.append(violation("round_trip_" + nm, {"setting": rp["setting"]}, "%s -> %s -> back: %r != %r" % (rp["labels"], rp["to"], g.tolist(), b.tolist()), rp))
        except AssertionError as e:
            vs.append(violation("round_trip_refused", {"setting": rp["setting"]}, "%s -> %s -> back refused %r" % (rp["labels"], rp["to"], e), rp))
    return vs
