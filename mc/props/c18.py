"""C18 Hand-offs between rounds preserve totals, bounds and priorities.

Part a: full products over small value menus on the four pure helpers of Parameters.
Part b: the real hand-offs of every pipeline execution (shared pipeline engine).
"""
import itertools

from .. import common
from ..common import violation

FOODS = ["fish", "meat", "dairy", "greenhouse", "outdoor_crops", "stored_food", "methane_scp",
         "cellulosic_sugar", "seaweed"]
ATTR = {"fish": "fish_kcals_equivalent", "meat": "meat_kcals_equivalent", "dairy": "milk_kcals_equivalent",
        "greenhouse": "greenhouse_kcals_equivalent", "stored_food": "stored_food_kcals_equivalent",
        "methane_scp": "scp_kcals_equivalent", "cellulosic_sugar": "cell_sugar_kcals_equivalent",
        "seaweed": "seaweed_kcals_equivalent"}
KD = 2100.0
BUMP_ABS = 1e-6


def _params():
    common.sandbox()
    with common.quiet():
        from src.optimizer.parameters import Parameters
    return Parameters()


# ------------------------------------------------------------------ a. fill_negatives


def check_fill(P, arr):
    import numpy as np
    a = np.array(arr, dtype=float)
    before = a.copy()
    vs = []
    key = {"fn": "fill_negatives_with_positives", "case": repr(list(arr))}
    rp = {"fn": "fill", "args": [list(arr)]}
    try:
        out = P.fill_negatives_with_positives(a)
    except AssertionError as e:
        return [violation("fill_nonneg" if before.sum() >= 0 else "fill_total", key, "%s: raised AssertionError %s" % (arr, str(e)[:80]), rp)], None
    if not np.array_equal(a, before):
        vs.append(violation("fill_mutates_input", key, "input %s changed to %s" % (arr, a.tolist()), rp))
    if abs(out.sum() - before.sum()) > 1e-9:
        vs.append(violation("fill_total", key, "%s -> %s sum changed" % (arr, out.tolist()), rp))
    if before.sum() >= 0 and (out < -1e-12).any():
        vs.append(violation("fill_nonneg", key, "%s -> %s negative left although total >= 0" % (arr, out.tolist()), rp))
    for i, (b, o) in enumerate(zip(before, out)):
        if b >= 0 and not (-1e-12 <= o <= b + 1e-12) and before.sum() >= 0:
            vs.append(violation("fill_surplus_only_shrinks", key, "%s -> %s idx %d" % (arr, out.tolist(), i), rp))
            break
        if b < 0 and not (b - 1e-12 <= o <= 1e-12):
            vs.append(violation("fill_deficit_only_fills", key, "%s -> %s idx %d" % (arr, out.tolist(), i), rp))
            break
    return vs, tuple(out.tolist())


# ------------------------------------------------------------------ b. meat re-timing


def check_retime(P, r1, r2):
    import numpy as np
    a1 = np.array(r1, dtype=float)
    a2 = np.array(r2, dtype=float)
    z = np.zeros(len(r1))
    key = {"fn": "get_second_round_kcals_with_redistributed_meat", "case": repr([list(r1), list(r2)])}
    rp = {"fn": "retime", "args": [list(r1), list(r2)]}
    vs = []
    try:
        with common.quiet():
            out = P.get_second_round_kcals_with_redistributed_meat(a1.copy(), a2.copy(), z, z)
    except AssertionError as e:
        # the model's own post-condition failed: for legal inputs (non-negative monthly meat) re-timing must succeed or abort cleanly
        import traceback
        where = [l.strip() for l in traceback.format_exc().splitlines() if l.strip().startswith("File") and "/src/" in l]
        vs.append(violation("retime_at_least_round1" if a1.sum() <= a2.sum() else "retime_skip", key,
                            "r1=%s r2=%s: re-timing raised AssertionError %s @ %s" % (r1, r2, str(e)[:80], where[-1][-90:] if where else "?"), rp))
        return vs, None
    if a1.sum() > a2.sum():
        if out is not None:
            vs.append(violation("retime_skip", key, "r1=%s r2=%s: less meat with feed must abort round 2" % (r1, r2), rp))
        return vs, None
    if out is None:
        vs.append(violation("retime_skip", key, "r1=%s r2=%s: aborted although round 2 has at least as much meat" % (r1, r2), rp))
        return vs, None
    if abs(out.sum() - a2.sum()) > 1e-9 * max(1, a2.sum()):
        vs.append(violation("retime_total", key, "r1=%s r2=%s -> %s total not preserved" % (r1, r2, out.tolist()), rp))
    if (out < -1e-12).any():
        vs.append(violation("retime_nonneg", key, "r1=%s r2=%s -> %s" % (r1, r2, out.tolist()), rp))
    if (out < a1 - 1e-12).any():
        vs.append(violation("retime_at_least_round1", key, "r1=%s r2=%s -> %s below no-feed level" % (r1, r2, out.tolist()), rp))
    return vs, tuple(out.tolist())


# ------------------------------------------------------------------ c. bounded bump


def check_bump(P, cols):
    """cols: list of 6-tuples (biofuel, feed, increase, max_biofuel, max_feed, avail), one per month"""
    import numpy as np
    arrs = [np.array(x, dtype=float) for x in zip(*cols)]
    ab, af = P.increase_biofuels_then_feed(*[a.copy() for a in arrs])
    key = {"fn": "increase_biofuels_then_feed", "case": repr(list(map(list, cols)))}
    rp = {"fn": "bump", "args": [list(map(list, cols))]}
    vs = []
    b, f, inc, mb, mf, av = arrs
    for m in range(len(cols)):
        d = "month %d of %s -> biofuel %r feed %r" % (m, cols, ab.tolist(), af.tolist())
        if ab[m] < b[m] - 1e-12 or af[m] < f[m] - 1e-12:
            vs.append(violation("bump_never_lowers", key, d, rp))
        # BUMP_ABS: the helper regularises a division with +1e-9, which can leak ~1e-9 billion kcal
        # (one kcal) into the other quantity; 1e-6 billion kcal absolute is the frozen allowance.
        if ab[m] > max(b[m], mb[m]) + BUMP_ABS:
            vs.append(violation("bump_biofuel_within_demand", key, d, rp))
        if af[m] > max(f[m], mf[m]) + BUMP_ABS:
            vs.append(violation("bump_feed_within_demand", key, d, rp))
        if not (ab[m] == ab[m] and af[m] == af[m]):
            vs.append(violation("bump_finite", key, d, rp))
    return vs, (tuple(ab.tolist()), tuple(af.tolist()))


# ------------------------------------------------------------------ d. minimum human needs


class _R1:
    pass


def _standin(months, include=False):
    """months: list of dicts food->kcal/person/day eaten in the no-feed round."""
    from src.food_system.food import Food
    import numpy as np

    def mk(vals):
        n = len(vals)
        return Food(kcals=np.array(vals, dtype=float), fat=np.zeros(n), protein=np.zeros(n),
                    kcals_units="kcals per person per day each month",
                    fat_units="effective kcals per person per day each month",
                    protein_units="effective kcals per person per day each month")
    r = _R1()
    for food, attr in ATTR.items():
        setattr(r, attr, mk([m.get(food, 0.0) for m in months]))
    crops = [m.get("outdoor_crops", 0.0) for m in months]
    r.immediate_outdoor_crops_kcals_equivalent = mk([c / 4.0 for c in crops])
    r.new_stored_outdoor_crops_kcals_equivalent = mk([c - c / 4.0 for c in crops])
    totals = [sum(m.values()) for m in months]
    r.percent_people_fed = min(totals) / KD * 100.0
    r.include_fat = include
    r.include_protein = include
    return r


def check_min_needs(P, months, T):
    import numpy as np
    from src.food_system.food import Food
    Food.conversions.set_nutrition_requirements(kcals_daily=KD, fat_daily=47, protein_daily=51,
                                                include_fat=False, include_protein=False, population=1e7)
    r1 = _standin(months)
    ci = {"MINIMUM_PERCENT_FED_BEFORE_NONHUMAN_CONSUMPTION_ALLOWED": T, "NUTRITION": {"KCALS_DAILY": KD},
          "NMONTHS": len(months)}
    key = {"fn": "calculate_human_consumption_for_min_needs", "case": repr([months, T])}
    rp = {"fn": "min_needs", "args": [months, T]}
    try:
        with common.quiet():
            out = P.calculate_human_consumption_for_min_needs(ci, r1, None)
    except AssertionError as e:
        return [violation("min_needs_raises", key, "months=%s T=%s: %r" % (months, T, e), rp)], None
    vs = []
    cap = KD * min(r1.percent_people_fed, T) / 100.0
    if list(out.keys()) != FOODS:
        vs.append(violation("min_needs_foods", key, "keys %s" % list(out.keys()), rp))
        return vs, None
    obs = []
    for mi, m in enumerate(months):
        eaten = [float(out[f].kcals[mi]) for f in FOODS]
        obs.append(tuple(round(e, 9) for e in eaten))
        avail = [float(m.get(f, 0.0)) for f in FOODS]
        d = "month %d avail=%s T=%s r1=%.4f cap=%.4f pinned=%s" % (mi, m, T, r1.percent_people_fed, cap, dict(zip(FOODS, eaten)))
        if not common.close(sum(eaten), cap, rel=1e-9):
            vs.append(violation("min_needs_sum", key, d, rp))
        for j, f in enumerate(FOODS):
            if eaten[j] < -1e-12 or eaten[j] > avail[j] + 1e-9 * max(1, avail[j]):
                vs.append(violation("min_needs_within_round1", key, d + " food=" + f, rp))
            if eaten[j] > 1e-12:
                for i in range(j):
                    if not common.close(eaten[i], avail[i], rel=1e-9):
                        vs.append(violation("min_needs_priority", key, d + " %s eaten before %s exhausted" % (f, FOODS[i]), rp))
                        break
    return vs, tuple(obs)


VALS = (105.0, 630.0, 1365.0)   # 5 %, 30 %, 65 % of the daily need


def month_patterns(kmax):
    yield {}
    for k in range(1, kmax + 1):
        for foods in itertools.combinations(FOODS, k):
            for vals in itertools.product(VALS, repeat=k):
                yield dict(zip(foods, vals))


OTHER_MONTHS = [
    {"stored_food": 5000.0},                       # ample: never the worst month
    {"fish": 105.0},                               # 5 %: worst month, below every T > 0
    {"meat": 105.0, "seaweed": 105.0},             # exactly 10 %
    {"dairy": 630.0, "outdoor_crops": 630.0},      # exactly 60 %
    {"greenhouse": 1365.0, "methane_scp": 630.0, "cellulosic_sugar": 105.0},  # exactly 100 %
    {},                                            # nothing at all
]
THRESHOLDS = (0, 0.5, 10, 12.5, 60, 99.5, 100)      # incl. thresholds that are not a whole number of percent (legal values of the numeric override)

_P = None


def _init():
    global _P
    _P = _params()


def _job_min_needs(job):
    pats, = job
    vs = []
    outs = set()
    n = 0
    for pat in pats:
        for other in OTHER_MONTHS:
            for T in THRESHOLDS:
                v, o = check_min_needs(_P, [pat, other], T)
                n += 1
                vs.extend(v[:2])
                outs.add(o)
    return n, vs[:20], len(outs), len(vs)


def run(tier, seed):
    import numpy as np
    t = common.Timer()
    P = _params()
    vs = []
    cov = {}
    outcomes = set()
    # a
    maxlen = 5 if tier == "quick" else 6
    menu = (-2, -1, 0, 1, 2, 3)
    n_a = 0
    for n in range(1, maxlen + 1):
        for arr in itertools.product(menu, repeat=n):
            v, o = check_fill(P, arr)
            n_a += 1
            vs.extend(v)
            outcomes.add(("a", o))
    # b
    maxlen_b = 3 if tier == "quick" else 4
    menu_b = (0, 1, 2, 5)
    n_b = 0
    n_b_skip = 0
    for n in range(1, maxlen_b + 1):
        for r1 in itertools.product(menu_b, repeat=n):
            for r2 in itertools.product(menu_b, repeat=n):
                v, o = check_retime(P, r1, r2)
                n_b += 1
                n_b_skip += o is None
                vs.extend(v)
                outcomes.add(("b", o))
    # c
    menu_c = (0, 1, 2, 5, 9) if tier == "quick" else (0, 0.5, 1, 2, 5, 9)
    n_c = 0
    cols = list(itertools.product(menu_c, repeat=6))
    for c in cols:
        v, o = check_bump(P, [c])
        n_c += 1
        vs.extend(v)
        outcomes.add(("c", o))
    # months do not interact: every pair drawn from a fixed stride-slice, compared with singles
    stride = 97 if tier == "quick" else 31
    sl = cols[seed % stride::stride]
    n_c2 = 0
    for c1 in sl[:60]:
        for c2 in sl[:60]:
            ab, af = P.increase_biofuels_then_feed(*[np.array(x, dtype=float) for x in zip(c1, c2)])
            ab1, af1 = P.increase_biofuels_then_feed(*[np.array([x], dtype=float) for x in c1])
            ab2, af2 = P.increase_biofuels_then_feed(*[np.array([x], dtype=float) for x in c2])
            n_c2 += 1
            if not (ab[0] == ab1[0] and ab[1] == ab2[0] and af[0] == af1[0] and af[1] == af2[0]):
                vs.append(violation("bump_months_independent", {"fn": "increase_biofuels_then_feed"},
                                    "%s | %s" % (c1, c2), {"fn": "bump", "args": [[list(c1), list(c2)]]}))
    # d
    kmax = 3 if tier == "quick" else 4
    pats = list(month_patterns(kmax))
    chunks = [(pats[i:i + 40],) for i in range(0, len(pats), 40)]
    res = common.pmap(_job_min_needs, chunks, init_fn=_init)
    n_d = sum(r[0] for r in res)
    d_out = sum(r[2] for r in res)
    for r in res:
        vs.extend(r[1])
    cov.update(
        executions=n_a + n_b + n_c + n_c2 + n_d,
        states=n_a + n_b + n_c + n_d,
        transitions=n_a + n_b + n_c + 3 * n_c2 + n_d,
        traces_validated_against_impl=n_a + n_b + n_c + n_c2 + n_d,
        distinct_outcomes=len(outcomes) + d_out,
        per_helper={"fill_negatives_with_positives": n_a, "redistributed_meat": n_b, "redistributed_meat_aborts": n_b_skip,
                    "increase_biofuels_then_feed": n_c, "increase_biofuels_two_month_pairs": n_c2,
                    "human_consumption_for_min_needs": n_d},
        bound={"fill": "all arrays of length<=%d over %s" % (maxlen, list(menu)),
               "retime": "all pairs of arrays of length<=%d over %s" % (maxlen_b, list(menu_b)),
               "bump": "all 6-tuples over %s; two-month pairs from a stride-%d slice" % (list(menu_c), stride),
               "min_needs": "month 0: every pattern with <=%d of 9 foods non-zero over %s kcal/person/day; month 1: %d fixed patterns; T in %s" % (
                   kmax, list(VALS), len(OTHER_MONTHS), list(THRESHOLDS))},
        alphabet="value menus above; a state is one helper input, a transition one helper call on the real code",
        samples=[{"fn": "fill", "args": [[-2, 3, 0, -1, 1]]}, {"fn": "retime", "args": [[5, 0, 1], [0, 5, 2]]},
                 {"fn": "bump", "args": [[[5, 1, 2, 2, 9, 9]]]},
                 {"fn": "min_needs", "args": [[{"fish": 105.0, "seaweed": 1365.0}, {"fish": 105.0}], 10]}],
        caps_hit=[],
    )
    # part b: the real hand-offs of every pipeline execution (shared engine, cached per source tree)
    from .. import pipeline
    data = pipeline.explore(tier, seed)
    pc = pipeline.coverage_for("C18", data)
    if pc["harness_errors"]:
        raise RuntimeError("pipeline harness errors: %s" % pc["harness_errors"][:2])
    full = pc["controller_branches"].get("full", 0)
    cov["real_handoffs"] = {"executions": pc["executions"], "with_all_three_rounds": full, "bound": pc["bound"], "cache": pc["cache"]}
    for k in ("executions", "states", "transitions", "traces_validated_against_impl"):
        cov[k] += full
    vs = vs + [common.Violation(v) for v in data["violations"]["C18"]]
    return {"coverage": cov, "violations": vs,
            "assumptions": ["helpers are deterministic pure functions of their array arguments",
                            "stand-in results object exposes exactly the attributes the helper reads"]}


def replay(rp):
    if "opts" in rp:
        from .. import pipeline
        return pipeline.replay("C18", rp)
    P = _params()
    fn = rp["fn"]
    if fn == "fill":
        return check_fill(P, rp["args"][0])[0]
    if fn == "retime":
        return check_retime(P, *rp["args"])[0]
    if fn == "bump":
        return check_bump(P, [tuple(c) for c in rp["args"][0]])[0]
    if fn == "min_needs":
        return check_min_needs(P, *rp["args"])[0]
    raise ValueError(fn)
