"""Herd engine: drives the real animal_populations.main() with generated monthly feed/grass
answers and checks every (species, month) state against the C06 ledger and the C07 reference
feeder.  One execution = one full call of main(); choice points = country, breeding strategy,
feeding-order mode and one (feed level, grass level) answer per month."""
import itertools

from . import common
from .common import violation

STRATEGIES = ("baseline", "reduced", "feed_only_ruminants")
KCALS_PER_HEAD = {  # billion kcal per head, same formulas as MeatAndDairy.initialize_this_country_animal_kcals
    "KCALS_PER_CHICKEN": 1.6 * 1525 / 1e9,
    "KCALS_PER_PIG": 85.0 * 3590 / 1e9,
    "KCALS_PER_SMALL_ANIMAL": 2.36 * 1525 / 1e9,
    "KCALS_PER_MEDIUM_ANIMAL": 24.6 * 3590 / 1e9,
    "KCALS_PER_LARGE_ANIMAL": 269.7 * 2750 / 1e9,
}
EFF_GRASS = 0.6
EFF_FEED = 0.8

_ap = None
_Food = None
_need_cache = {}


def init():
    global _ap, _Food
    common.sandbox()
    with common.quiet():
        from src.food_system import animal_populations as ap
        from src.food_system.food import Food
    Food.conversions.set_nutrition_requirements(2100, 47, 51, False, False, 1e9)
    _ap, _Food = ap, Food


def mk(vals):
    import numpy as np
    n = len(vals)
    return _Food(kcals=np.array(vals, dtype=float), fat=np.zeros(n), protein=np.zeros(n),
                 kcals_units="billion kcals each month", fat_units="thousand tons each month",
                 protein_units="thousand tons each month")


def call_main(iso, strat, feed, grass, order):
    with common.quiet() as buf:
        animals, fu, gu = _ap.main(iso, mk(feed), mk(grass), strat, None, remove_first_month=0,
                                   kcals_per_head_meat_dict=KCALS_PER_HEAD if order == "meat" else None)
    return animals, fu, gu, buf.getvalue()


def month0_need(iso, strat):
    """(feed, grass) gross energy that would fully feed the month-0 herds: the unit of the level menus."""
    k = (iso, strat)
    if k not in _need_cache:
        animals, _, _, _ = call_main(iso, strat, [0.0], [0.0], "meat")
        tot = sum(req_per_head(a) * a.population[0] for a in animals)
        rum = sum(req_per_head(a) * a.population[0] for a in animals if a.digestion_type == "ruminant")
        _need_cache[k] = (tot / EFF_FEED, rum / EFF_GRASS)
    return _need_cache[k]


def order_scores(animals, order, regional):
    """Priority score recomputed from the species attributes (independent of the builder).  The model
    ranks by net kcals gained per slaughter hour = meat per head + feed saved per head, per hour."""
    out = []
    for a in animals:
        if order != "meat":
            out.append(a.approximate_feed_conversion)
            continue
        if a.animal_type == "chicken":
            k = KCALS_PER_HEAD["KCALS_PER_CHICKEN"]
        elif a.animal_type == "pig":
            k = KCALS_PER_HEAD["KCALS_PER_PIG"]
        else:
            k = KCALS_PER_HEAD["KCALS_PER_%s_ANIMAL" % a.animal_size.upper()]
        ne = a.livestock_unit * a.one_LSU_monthly_billion_kcal() * (a.LSU_factor if regional else 1)
        out.append(k / a.animal_slaughter_hours + ne / EFF_FEED / a.animal_slaughter_hours)
    return out


def is_descending(xs):
    return all(x >= y - 1e-12 * max(1.0, abs(x)) for x, y in zip(xs, xs[1:]))


def check_execution(iso, strat, order, feed, grass, want=("C06", "C07")):
    """Runs one execution and returns (violations by property, stats)."""
    animals, fu, gu, out = call_main(iso, strat, feed, grass, order)
    n = len(feed)
    v6, v7 = [], []
    key = {"iso3": iso, "strategy": strat, "order": order}
    rp = {"iso3": iso, "strategy": strat, "order": order, "feed": list(feed), "grass": list(grass)}
    by_species = {}
    for a in animals:
        by_species.setdefault(a.animal_species, {})[a.animal_function] = a
    stats = {"states": len(animals) * n, "partial": 0, "full": 0, "unfed": 0, "clamped": 0, "target_binds": 0,
             "hours_bind": 0, "species": len(animals)}

    def bad(lst, clause, a, m, detail):
        if sum(1 for x in lst if x["clause"] == clause) < 2:
            lst.append(violation(clause, dict(key, species=a.animal_type if a is not None else None,
                                              iso3_species="%s:%s" % (iso, a.animal_type) if a is not None else None),
                                 "%s %s order=%s month %d: %s" % (iso, strat, order, m, detail), rp))

    if "C06" in want:
        used_hours = {}
        for m in range(n):
            used = {"small": 0.0, "medium": 0.0, "large": 0.0}
            cap = {"small": 0.0, "medium": 0.0, "large": 0.0}
            for a in animals:
                start, end = a.population[m], a.population[m + 1]
                births = a.births_animals_month[m]
                od = a.other_death_causes_other_than_starving[m + 1]
                sl = a.slaughter[m + 1]
                sd = a.other_death_starving[m + 1]
                hk = a.total_homekill_this_month[m + 1]
                if a.animal_function == "milk":
                    ret, tin = a.retiring_milk_animals[m], 0.0
                else:
                    ret, tin = 0.0, a.transfer_population[m]
                scale = max(1.0, abs(start))
                raw = start + births + tin - ret - od - sl - sd - hk
                exp = max(0.0, raw)
                if raw < 0:
                    stats["clamped"] += 1
                if abs(exp - end) > 1e-9 * scale:
                    bad(v6, "ledger", a, m, "start=%r births=%r transfer_in=%r retiring=%r other=%r slaughter=%r starved=%r homekill=%r -> end=%r expected %r"
                        % (start, births, tin, ret, od, sl, sd, hk, end, exp))
                for nm, val in (("population", end), ("births", births), ("other_deaths", od), ("slaughter", sl),
                                ("starvation_deaths", sd), ("homekill", hk), ("retiring", ret),
                                ("transfer_in", tin), ("starving_count", a.population_starving_pre_slaughter[m + 1])):
                    if not val >= -1e-9 * scale:
                        bad(v6, "nonneg_" + nm, a, m, "%s = %r" % (nm, val))
                avail = start + births + tin - ret - od
                if sl > max(avail, 0.0) + 1e-9 * scale:
                    bad(v6, "slaughter_within_available", a, m, "slaughter %r > available %r" % (sl, avail))
                if sl > 1e-9 * scale:
                    if avail - sl < a.target_population_head - 1e-9 * scale:
                        bad(v6, "slaughter_respects_target", a, m, "after slaughter %r < target %r" % (avail - sl, a.target_population_head))
                    if abs(avail - sl - a.target_population_head) <= 1e-9 * scale:
                        stats["target_binds"] += 1
                used[a.animal_size] += sl * a.animal_slaughter_hours
                cap[a.animal_size] += a.baseline_slaughter * a.animal_slaughter_hours
                if a.animal_function == "milk":
                    outflow = a.retiring_milk_animals[m] + a.transfer_births[m]
                    meat = by_species[a.animal_species].get("meat")
                    if meat is not None and abs(outflow - meat.transfer_population[m]) > 1e-9 * max(1.0, outflow):
                        bad(v6, "milk_to_meat_transfer", a, m, "retiring+male calves %r != added to meat herd %r" % (outflow, meat.transfer_population[m]))
                elif by_species[a.animal_species].get("milk") is None and abs(tin) > 1e-9 * scale:
                    # nothing can be handed over to a herd whose species has no dairy herd (animals would come from nowhere)
                    bad(v6, "milk_to_meat_transfer", a, m, "%r head transferred into %s although no dairy herd of species %s exists" % (tin, a.animal_type, a.animal_species))
            for size in used:
                if used[size] > cap[size] * (1 + 1e-9) + 1e-9:
                    bad(v6, "slaughter_hours_within_capacity", None, m, "%s class uses %r hours > capacity %r" % (size, used[size], cap[size]))
                if cap[size] > 0 and abs(used[size] - cap[size]) <= 1e-9 * cap[size]:
                    stats["hours_bind"] += 1

    if "C07" in want:
        # the ranking may use the generic or the regional livestock-unit factor (the statement fixes neither);
        # any other order is not "priority order by net kcals gained per slaughter hour"
        if not (is_descending(order_scores(animals, order, False)) or is_descending(order_scores(animals, order, True))):
            bad(v7, "priority_order", None, 0, "species served in order %s; scores %s not descending"
                % ([a.animal_type for a in animals], order_scores(animals, order, False)))
        for m in range(n):
            fl, gl = float(feed[m]), float(grass[m])
            served_short = None
            for a in animals:
                pop = a.population[m]
                R = req_per_head(a) * pop
                rum = a.digestion_type == "ruminant"
                starving = a.population_starving_pre_slaughter[m + 1]
                if R == 0:
                    # nothing is required, nothing may be delivered; the fed count must still fit the herd
                    if pop - starving > pop + 1e-9 * max(1.0, pop) or starving < -1e-9 * max(1.0, pop):
                        bad(v7, "fed_within_herd", a, m, "herd %r but fed %r (starving %r)" % (pop, pop - starving, starving))
                    continue
                g_ne = gl * EFF_GRASS if rum else 0.0
                if g_ne >= R:
                    gl -= R / EFF_GRASS
                    frac = 1.0
                else:
                    Rr = R
                    if g_ne > 0:
                        Rr -= g_ne
                        gl = 0.0
                    f_ne = fl * EFF_FEED
                    if f_ne >= Rr:
                        fl -= Rr / EFF_FEED
                        frac = 1.0
                    else:
                        fl = 0.0
                        frac = (g_ne + f_ne) / R
                        served_short = served_short or a.animal_type
                fed = pop - starving
                if frac >= 1.0:
                    stats["full"] += 1
                    if abs(fed - pop) > 1e-9 * max(1.0, pop):
                        bad(v7, "fed_equals_herd_when_met", a, m, "herd %r fed %r" % (pop, fed))
                else:
                    stats["partial" if frac > 0 else "unfed"] += 1
                    if abs(fed - pop * frac) > 0.5 + 1e-6 * max(1.0, pop):
                        bad(v7, "fed_is_herd_times_fraction", a, m, "herd %r delivered fraction %.6f -> fed %r (expected %r), starving %r"
                            % (pop, frac, fed, pop * frac, starving))
                if fed > pop + 1e-9 * max(1.0, pop):
                    bad(v7, "fed_within_herd", a, m, "fed %r > herd %r" % (fed, pop))
                if starving < -1e-9 * max(1.0, pop):
                    bad(v7, "starving_nonneg", a, m, "starving %r" % starving)
            exp_fu, exp_gu = float(feed[m]) - fl, float(grass[m]) - gl
            if not common.close(fu.kcals[m], exp_fu, rel=1e-9):
                bad(v7, "feed_used_matches_reference", None, m, "feed used %r, reference feeder %r" % (fu.kcals[m], exp_fu))
            if not common.close(gu.kcals[m], exp_gu, rel=1e-9):
                bad(v7, "grass_used_matches_reference", None, m, "grass used %r, reference feeder %r" % (gu.kcals[m], exp_gu))
            if fu.kcals[m] > feed[m] * (1 + 1e-12) + 1e-12 or fu.kcals[m] < -1e-12:
                bad(v7, "feed_used_within_supplied", None, m, "used %r of %r" % (fu.kcals[m], feed[m]))
            if gu.kcals[m] > grass[m] * (1 + 1e-12) + 1e-12 or gu.kcals[m] < -1e-12:
                bad(v7, "grass_used_within_supplied", None, m, "used %r of %r" % (gu.kcals[m], grass[m]))
    import hashlib
    import numpy as np
    h = hashlib.sha256()
    for a in animals:
        h.update(np.asarray(a.population, dtype=float).tobytes())
        h.update(np.asarray(a.slaughter, dtype=float).tobytes())
    h.update(np.asarray(fu.kcals, dtype=float).tobytes())
    stats["digest"] = h.hexdigest()[:12]
    return {"C06": v6, "C07": v7}, stats


# ------------------------------------------------------------------------ plans

CONST_LEVELS = (0.0, 0.25, 0.6, 1.0, 3.0)
DEV_LEVELS = (0.0, 0.6, 3.0)
DEV_MONTHS = 14


def countries():
    import csv
    with open(common.REPO + "/data/no_food_trade/computer_readable_combined.csv") as f:
        isos = [r["iso3"] for r in csv.DictReader(f)]
    return isos + ["WOR"]


def req_per_head(a):
    """net energy one animal needs per month, written out from the documented factors (livestock unit x regional factor x the
    energy of one livestock unit) at the time of the check, i.e. with the regional factor the run ended up with; NOT read back
    from the species' own requirement method (a value remembered there from before the regional factor was assigned would agree
    with itself)"""
    return a.livestock_unit * a.one_LSU_monthly_billion_kcal() * a.LSU_factor


def plan(tier, seed):
    """List of jobs (iso, strat, order, mode, spec); each job enumerates a complete sub-space."""
    isos = countries()
    fixed = ["USA", "IND", "WOR"]
    rest = [i for i in isos if i not in fixed]
    jobs = []
    if tier == "quick":
        sel = fixed + common.rotate(rest, seed, 9)
        for iso in sel:
            for strat in STRATEGIES:
                jobs.append((iso, strat, "meat", "const", 36))
                jobs.append((iso, strat, "meat", "dev", (1, 2)))       # k<=1, ample default
                jobs.append((iso, strat, "meat", "dev", (1, 0)))       # k<=1, zero default
            jobs.append((iso, "reduced", "conversion", "const", 12))
        # every other country's herd table too (fractional herds, missing species, extreme ratios), on a shorter menu
        for iso in isos:
            if iso not in sel:
                for strat in STRATEGIES:
                    jobs.append((iso, strat, "meat", "const", 12))
        bound = {"countries": sel, "constant_series": "5x5 levels x 36 months", "deviations": "k<=1 over %d months, 3x3 menu, defaults ample and zero" % DEV_MONTHS,
                 "all_other_countries": "%d countries x 3 strategies x 5x5 constant levels x 12 months" % (len(isos) - len(sel))}
    else:
        dev_c = fixed + common.rotate(rest, 0, 9)
        for iso in isos:
            for strat in STRATEGIES:
                jobs.append((iso, strat, "meat", "const", 120))
            jobs.append((iso, "reduced", "conversion", "const", 24))
        for iso in dev_c:
            for strat in STRATEGIES:
                for dflt in (2, 0):
                    for first in range(DEV_MONTHS):
                        jobs.append((iso, strat, "meat", "dev2", (dflt, first)))
        bound = {"countries": "all %d" % len(isos), "constant_series": "5x5 levels x 120 months",
                 "deviations": "k<=2 over %d months, 3x3 menu, defaults ample and zero, countries %s" % (DEV_MONTHS, dev_c)}
    return jobs, bound


def series_for(mode, spec):
    """yields (feed_levels, grass_levels) per execution (lists of level multipliers)."""
    if mode == "const":
        for f, g in itertools.product(CONST_LEVELS, CONST_LEVELS):
            yield [f] * spec, [g] * spec
    elif mode == "dev":
        k, dflt = spec
        base = DEV_LEVELS[dflt]
        alts = [(f, g) for f in DEV_LEVELS for g in DEV_LEVELS if (f, g) != (base, base)]
        yield [base] * DEV_MONTHS, [base] * DEV_MONTHS
        for m in range(DEV_MONTHS):
            for f, g in alts:
                fs, gs = [base] * DEV_MONTHS, [base] * DEV_MONTHS
                fs[m], gs[m] = f, g
                yield fs, gs
    elif mode == "dev2":
        dflt, first = spec
        base = DEV_LEVELS[dflt]
        alts = [(f, g) for f in DEV_LEVELS for g in DEV_LEVELS if (f, g) != (base, base)]
        if first == 0:
            yield [base] * DEV_MONTHS, [base] * DEV_MONTHS
        for f, g in alts:
            fs, gs = [base] * DEV_MONTHS, [base] * DEV_MONTHS
            fs[first], gs[first] = f, g
            yield fs, gs
            for m2 in range(first + 1, DEV_MONTHS):
                for f2, g2 in alts:
                    fs2, gs2 = list(fs), list(gs)
                    fs2[m2], gs2[m2] = f2, g2
                    yield fs2, gs2


def run_job(job):
    iso, strat, order, mode, spec = job
    want = run_job.want
    try:
        nf, ng = month0_need(iso, strat)
    except Exception as e:   # a country the herd model cannot even start on is a finding for the caller
        return {"job": job, "error": repr(e)[:300], "n": 0}
    agg = {"n": 0, "states": 0, "transitions": 0, "partial": 0, "full": 0, "unfed": 0, "clamped": 0,
           "target_binds": 0, "hours_bind": 0, "digests": set(), "C06": [], "C07": [], "job": job}
    for fl, gl in series_for(mode, spec):
        feed = [x * nf for x in fl]
        grass = [x * ng for x in gl]
        try:
            vs, st = check_execution(iso, strat, order, feed, grass, want)
        except Exception as e:
            import traceback
            agg.setdefault("errors", []).append((repr(e)[:200], traceback.format_exc()[-600:], fl[:3], gl[:3]))
            continue
        agg["n"] += 1
        agg["states"] += st["states"]
        agg["transitions"] += len(feed)
        for k in ("partial", "full", "unfed", "clamped", "target_binds", "hours_bind"):
            agg[k] += st[k]
        agg["digests"].add(st["digest"])
        for p in ("C06", "C07"):
            if len(agg[p]) < 6:
                agg[p].extend(vs[p][:3])
            elif vs[p]:
                agg.setdefault(p + "_more", 0)
                agg[p + "_more"] += 1
    agg["digests"] = len(agg["digests"])
    return agg


run_job.want = ("C06", "C07")


def explore(pid, tier, seed):
    jobs, bound = plan(tier, seed)
    run_job.want = (pid,)
    res = common.pmap(run_job, jobs, init_fn=init, chunksize=1)
    vs = []
    tot = {k: 0 for k in ("n", "states", "transitions", "partial", "full", "unfed", "clamped", "target_binds", "hours_bind", "digests")}
    errors = []
    more = 0
    for r in res:
        if "error" in r:
            errors.append((r["job"], r["error"]))
            continue
        for k in tot:
            tot[k] += r[k]
        vs.extend(r[pid])
        more += r.get(pid + "_more", 0)
        errors.extend((r["job"], e) for e in r.get("errors", []))
    samples = []
    for job in jobs[:3]:
        iso, strat, order, mode, spec = job
        fl, gl = next(iter(series_for(mode, spec)))
        samples.append({"iso3": iso, "strategy": strat, "order": order, "mode": mode,
                        "feed_levels": fl[:6], "grass_levels": gl[:6], "months": len(fl)})
    cov = {
        "executions": tot["n"], "states": tot["states"], "transitions": tot["transitions"],
        "traces_validated_against_impl": tot["n"], "distinct_outcomes": tot["digests"],
        "jobs": len(jobs), "bound": bound,
        "alphabet": {"strategy": list(STRATEGIES), "feeding_order": ["meat-per-hour (model default)", "feed conversion (fallback)"],
                     "constant levels (x month-0 need)": list(CONST_LEVELS), "deviation levels": list(DEV_LEVELS)},
        "branch_coverage": {k: tot[k] for k in ("partial", "full", "unfed", "clamped", "target_binds", "hours_bind")},
        "samples": samples, "caps_hit": [], "harness_errors": [str(e)[:300] for e in errors[:5]],
        "violating_executions_beyond_reported": more,
    }
    if errors:
        cov["caps_hit"].append("%d executions raised inside the harness" % len(errors))
    return cov, vs, errors


def replay(pid, rp):
    init()
    vs, _ = check_execution(rp["iso3"], rp["strategy"], rp["order"], rp["feed"], rp["grass"], (pid,))
    return vs[pid]
