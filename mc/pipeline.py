"""Pipeline engine: one execution = one full three-round run of one country (or the world aggregate) under one
option dictionary, on the real code, with every monitor attached (C01-C05, C16, C18b).  The plan (which
executions) is a bounded exhaustive enumeration: presets x all countries (layer 0), every single-option
deviation (layer 1), every pair of deviations (layer 2).  Results are cached per source tree."""
import copy
import fcntl
import hashlib
import json
import os
import time
import traceback

from . import common, options, reflp, supplies
from .common import violation

PIDS = ("C01", "C02", "C03", "C04", "C05", "C16", "C18")
_P = {}


def init():
    if _P:
        return
    supplies.init()
    np = supplies._S["np"]
    with common.quiet():
        from src.scenarios.run_model_no_trade import ScenarioRunnerNoTrade
        from src.scenarios import run_scenario as rs
        from src.optimizer.optimizer import Optimizer
        from src.optimizer.parameters import Parameters
        from src.optimizer import parameters as pmod
        from src.food_system.food import Food
    _P.update(np=np, Runner=ScenarioRunnerNoTrade, rs=rs, Optimizer=Optimizer, Parameters=Parameters, pmod=pmod, Food=Food, cap=None)

    o_h, o_a = Optimizer.optimize_to_humans, Optimizer.optimize_feed_to_animals

    def values_of(variables, N):
        out = {}
        for name, lst in variables.items():
            if isinstance(lst, list):
                out[name] = np.array([float(v.varValue) if hasattr(v, "varValue") and v.varValue is not None else (0.0 if hasattr(v, "varValue") else float(v)) for v in lst])
        return out

    def w_h(self, *a, **k):
        r = o_h(self, *a, **k)
        if _P["cap"] is not None:
            _P["cap"]["lp"].append({"kind": "h", "consts": self.consts_for_optimizer, "tc": self.time_consts, "vals": values_of(r[1], self.NMONTHS), "obj": r[3], "mh": None})
        return r

    def w_a(self, *a, **k):
        r = o_a(self, *a, **k)
        mh = k.get("min_human_food_consumption", a[2] if len(a) > 2 else None)
        if _P["cap"] is not None:
            _P["cap"]["lp"].append({"kind": "a", "consts": self.consts_for_optimizer, "tc": self.time_consts, "vals": values_of(r[1], self.NMONTHS), "obj": r[3], "mh": mh})
        return r
    Optimizer.optimize_to_humans, Optimizer.optimize_feed_to_animals = w_h, w_a

    o_run = Optimizer.run_optimizations_on_constraints

    def w_run(self, *a, **k):
        # the first-stage programme exactly as the model built it, before any solve: kept as matrices so that it can be
        # solved by a second solver (separates formulation faults from the accuracy of the model's own solver)
        if _P["cap"] is not None:
            model = k.get("model", a[0] if a else None)
            try:
                _P["cap"]["models"].append(reflp.lp_of_pulp_model(model))
            except Exception as e:      # never let the probe disturb the run
                _P["cap"]["models"].append({"error": repr(e)[:200]})
        return o_run(self, *a, **k)
    Optimizer.run_optimizations_on_constraints = w_run

    o_init = Optimizer.__init__

    def w_init(self, *a, **k):
        if _P["cap"] is not None and _P["cap"].get("want_inputs"):
            c = k.get("consts_for_optimizer", a[0] if a else None)
            t = k.get("time_consts", a[1] if len(a) > 1 else None)
            _P["cap"].setdefault("inputs", []).append((copy.deepcopy(c), copy.deepcopy(t)))
        o_init(self, *a, **k)
    Optimizer.__init__ = w_init
    _P["Optimizer_init"] = o_init

    ro = rs.ScenarioRunner.run_optimizer

    def w_ro(self, *a, **k):
        r = ro(self, *a, **k)
        if _P["cap"] is not None:
            _P["cap"]["interp"].append((r, k.get("title", "Untitled")))
        return r
    rs.ScenarioRunner.run_optimizer = w_ro

    cfm = pmod.CalculateFeedAndMeat
    cfm_init = cfm.__init__

    def w_cfm(self, *a, **k):
        # tolerant of keyword/positional use: (country_code, available_feed, available_grass, scenario, ...)
        feed = k.get("available_feed", a[1] if len(a) > 1 else None)
        grass = k.get("available_grass", a[2] if len(a) > 2 else None)
        feed0 = np.array(feed.kcals, dtype=float).copy()
        grass0 = np.array(grass.kcals, dtype=float).copy()
        cfm_init(self, *a, **k)
        if _P["cap"] is not None:
            _P["cap"]["herd"].append({"obj": self, "feed": feed0, "grass": grass0})
    cfm.__init__ = w_cfm

    for name in ("compute_parameters_first_round", "compute_parameters_second_round", "compute_parameters_third_round"):
        def mk(name):
            orig = getattr(Parameters, name)

            def w(self, *a, **k):
                r = orig(self, *a, **k)
                if _P["cap"] is not None:
                    _P["cap"][name] = {"args": a, "ret": r}
                return r
            return w
        setattr(Parameters, name, mk(name))


# ------------------------------------------------------------------ one execution


def execute(iso, opts, title, want_inputs=False):
    """runs the real model; returns capture dict (with 'error' on failure)"""
    init()
    cap = {"lp": [], "models": [], "interp": [], "herd": [], "stdout": "", "error": None, "result": None, "want_inputs": want_inputs}
    _P["cap"] = cap
    o = copy.deepcopy(options.clean(opts))
    try:
        with common.quiet() as buf:
            try:
                if iso == "WOR":
                    runner = _P["rs"].ScenarioRunner()
                    c, t, loader = runner.set_depending_on_option(o)
                    cap["result"] = runner.run_and_analyze_scenario(c, t, loader, False, False, "", None, False, "world", "WOR", title=title)
                else:
                    out = _P["Runner"]().run_model_no_trade(title=title, create_pptx_with_all_countries=False, show_country_figures=False,
                                                            show_map_figures=False, add_map_slide_to_pptx=False, scenario_option=o,
                                                            countries_list=[iso], return_results=True)
                    res = list(out[3].values())
                    cap["result"] = res[0] if res else None
                    cap["aggregate"] = (out[1], out[2])
            except BaseException as e:     # SystemExit included: the model calls sys.exit() on some paths
                tb = traceback.format_exc().splitlines()
                where = [l.strip() for l in tb if l.strip().startswith("File") and "/src/" in l]
                cap["error"] = "%s: %s @ %s" % (type(e).__name__, str(e)[:160].replace("\n", " "), where[-1][-110:] if where else "?")
            cap["stdout"] = buf.getvalue()
    finally:
        _P["cap"] = None
    cap["opts_after"] = o
    return cap


# ------------------------------------------------------------------ monitors


def mon_c01_c02(cap, key, rp, want):
    np = _P["np"]
    v1, v2 = [], []
    stats = {"lp": 0, "tight": set(), "ref_infeasible": 0, "max_rel": 0.0}
    for ri, lp in enumerate(cap["lp"]):
        d = reflp.inputs_of(lp["consts"], lp["tc"])
        k = dict(key, round=ri + 1, kind=lp["kind"])
        stats["lp"] += 1
        led, tight, fsum, bsum = reflp.ledger(d, lp["vals"], lp["kind"])
        lp["fsum"], lp["bsum"], lp["d"] = fsum, bsum, d
        stats["tight"] |= tight
        if "C01" in want:
            for clause, m, detail in led:
                v1.append(violation(clause, k, "%s round %d (%s): %s" % (key["iso3"], ri + 1, "people" if lp["kind"] == "h" else "feed", detail), rp))
        if "C02" in want:
            pins = None
            if lp["kind"] == "a":
                pins = {f: np.asarray(lp["mh"][f].in_units_bil_kcals_thou_tons_thou_tons_per_month().kcals, dtype=float)
                        for f in ("stored_food", "outdoor_crops", "meat", "methane_scp", "cellulosic_sugar", "seaweed")}
            status, ref = reflp.solve_reference(d, lp["kind"], pins)
            what = "percent fed" if lp["kind"] == "h" else "weighted feed+biofuel"
            mstat, mval = (None, None)
            if ri < len(cap["models"]) and "error" not in cap["models"][ri]:
                mstat, mval = reflp.solve_matrix_lp(cap["models"][ri])
            if status in (1, 4) or mstat in (None, 1, 4):
                stats["ref_unsolved"] = stats.get("ref_unsolved", 0) + 1     # an oracle could not decide this instance: counted, never judged
                continue
            # (A) formulation: the model's own programme and the independent one, both solved by HiGHS
            tolA = 1e-5
            relaxed_own = False
            if (mstat == 0) != (status == 0) and lp["obj"] is not None:
                # one of the two is infeasible although the model's solver returned a solution: decide with the solver's own
                # feasibility tolerance (a band pinned around a -1e-7 value is infeasible only by noise)
                if mstat != 0:
                    mstat, mval = reflp.solve_matrix_lp(cap["models"][ri], relax=1e-6)
                    relaxed_own = True
                else:
                    status, ref = reflp.solve_reference(d, lp["kind"], pins, relax=1e-6)
                tolA = 1e-4
                stats["borderline"] = stats.get("borderline", 0) + 1
            if mstat == 0 and status == 0:
                rel = abs(mval - ref) / max(1.0, abs(ref), abs(mval))
                stats["max_rel"] = max(stats["max_rel"], rel)
                if rel > tolA and relaxed_own and abs(lp["obj"] - ref) <= 1e-3 * max(1.0, abs(ref), abs(lp["obj"])):
                    # the model's own programme is infeasible at HiGHS's tolerance and was solved relaxed by 1e-6 (which can move a
                    # small optimum by more than 1e-4), while the figure its own solver returned for it agrees with the independent
                    # formulation: the relaxed figure is not evidence of a different formulation
                    stats["borderline_decided_by_cbc"] = stats.get("borderline_decided_by_cbc", 0) + 1
                elif rel > tolA:
                    v2.append(violation("optimum_matches_reference", k, "%s round %d (%s): the model's programme has optimum %.9g, the independent formulation %.9g (rel %.2e, %s)"
                                        % (key["iso3"], ri + 1, what, mval, ref, rel, "overstated" if mval > ref else "understated"), rp))
            elif (mstat == 0) != (status == 0):
                stats["ref_infeasible"] += 1
                v2.append(violation("feasibility_matches_reference", k, "%s round %d (%s): the model's programme is %s (optimum %s) but the independent formulation is %s (optimum %s)"
                                    % (key["iso3"], ri + 1, what, "feasible" if mstat == 0 else "infeasible", mval, "feasible" if status == 0 else "infeasible", ref), rp))
            else:
                stats["both_infeasible"] = stats.get("both_infeasible", 0) + 1
            # (B) the figure the model reports (its own solver, CBC) against the optimum of its own programme
            if mstat == 0:
                relb = abs(lp["obj"] - mval) / max(1.0, abs(mval), abs(lp["obj"]))
                stats["max_rel_cbc"] = max(stats.get("max_rel_cbc", 0.0), relb)
                if relb > 1e-3:
                    v2.append(violation("reported_optimum_is_lp_optimum", k, "%s round %d (%s): reported %.9g, optimum of the model's own programme %.9g (rel %.2e)"
                                        % (key["iso3"], ri + 1, what, lp["obj"], mval, relb), rp))
    stats["tight"] = sorted(stats["tight"])
    return v1, v2, stats


def branch_of(cap):
    kinds = "".join(l["kind"] for l in cap["lp"])
    return {"hah": "full", "h": "single_round", "hh": "round2_aborted"}.get(kinds, kinds or "none")


def mon_c03(cap, key, rp):
    np = _P["np"]
    vs = []
    if cap["error"] or not cap["interp"]:
        return vs, {}
    c = cap["lp"][0]["consts"]["inputs"]
    N = c["NMONTHS"]
    T = c["MINIMUM_PERCENT_FED_BEFORE_NONHUMAN_CONSUMPTION_ALLOWED"]
    heads = [float(i.percent_people_fed) for i, _ in cap["interp"]]
    final = heads[-1]
    br = branch_of(cap)
    feed_dem = np.array(supplies.ref_demand(c["FEED_KCALS"], c["DELAY"]["FEED_SHUTOFF_MONTHS"], N))
    bio_dem = np.array(supplies.ref_demand(c["BIOFUEL_KCALS"], c["DELAY"]["BIOFUEL_SHUTOFF_MONTHS"], N))
    need = c["POP"] * 30 * c["NUTRITION"]["KCALS_DAILY"] / 1e9
    for ri, lp in enumerate(cap["lp"]):
        k = dict(key, round=ri + 1)
        for nm, got, dem in (("feed", lp["fsum"], feed_dem), ("biofuel", lp["bsum"], bio_dem)):
            bad = [m for m in range(N) if got[m] > dem[m] + 1e-5 * max(1.0, dem[m]) + 1e-6]
            if bad:
                m = bad[0]
                vs.append(violation("%s_within_demand_schedule" % nm, k, "%s round %d month %d: %s from human-edible food %r > demand schedule %r%s"
                                    % (key["iso3"], ri + 1, m, nm, got[m], dem[m], " (after the shut-off month)" if dem[m] == 0 else ""), rp))
    if br in ("full", "round2_aborted"):
        r1 = heads[0]
        last = cap["lp"][-1]
        fb_pct = (last["fsum"] + last["bsum"]) / need * 100.0
        # facts that characterise the recorded mechanism (people are only guaranteed the worst-month level of the no-feed
        # round, min(r1, T); whatever better months hold beyond that goes to animals although final < T)
        k = dict(key, branch=br, r1_below_T=bool(r1 < T), final_not_below_r1=bool(final >= r1 - 0.05))
        if final < T - 0.1:
            if fb_pct.max() > 0.1:
                m = int(fb_pct.argmax())
                vs.append(violation("no_feed_while_below_threshold", k, "%s: final %.3f %% < threshold %s but month %d gives %.3f %% of a month's need to feed/biofuel (no-feed round: %.3f %%)"
                                    % (key["iso3"], final, T, m, fb_pct[m], r1), rp))
            if final < r1 - 0.05:
                vs.append(violation("final_not_below_no_feed_round", k, "%s: final %.3f %% < no-feed round %.3f %% while below threshold %s" % (key["iso3"], final, r1, T), rp))
        if r1 >= T and final < T - 0.05:
            vs.append(violation("threshold_kept_when_reachable", k, "%s: no-feed round reaches %.3f %% >= %s but final is %.3f %%" % (key["iso3"], r1, T, final), rp))
    return vs, {"branch": br, "below_T": final < T - 0.1}


def mon_c04(cap, key, rp):
    np = _P["np"]
    vs = []
    for ri, ((interp, title), lp) in enumerate(zip(cap["interp"], cap["lp"])):
        c = lp["consts"]
        N = c["NMONTHS"]
        KD = c["KCALS_DAILY"]
        k = dict(key, round=ri + 1)
        fac = 1e9 / (30.0 * c["POP"])            # billion kcal per month -> kcal per person per day
        vals, tc = lp["vals"], lp["tc"]

        def V(name):
            return np.asarray(vals.get(name, np.zeros(N)), dtype=float)
        want = {
            "stored_food": V("stored_food_to_humans") * fac, "seaweed": V("seaweed_to_humans") * c["SEAWEED_KCALS"] * fac,
            "cell_sugar": V("cellulosic_sugar_to_humans") * fac, "scp": V("methane_scp_to_humans") * fac, "meat": V("meat_eaten") * fac,
            "milk": np.asarray(tc["milk_kcals"], dtype=float)[:N] * fac, "fish": np.asarray(tc["fish"].to_humans.kcals, dtype=float)[:N] * fac,
            "greenhouse": np.asarray(tc["greenhouse_crops"].kcals, dtype=float)[:N] * fac,
        }
        crops = V("crops_food_to_humans") * fac
        got = {n: np.asarray(getattr(interp, n + "_kcals_equivalent").kcals, dtype=float) for n in want}
        imm = np.asarray(interp.immediate_outdoor_crops_kcals_equivalent.kcals, dtype=float)
        new = np.asarray(interp.new_stored_outdoor_crops_kcals_equivalent.kcals, dtype=float)
        for n in want:
            bad = np.where(np.abs(got[n] - want[n]) > 1e-9 * np.maximum(1.0, np.abs(want[n])))[0]
            if len(bad):
                m = int(bad[0])
                vs.append(violation("contribution_equals_allocation", dict(k, food=n), "%s round %d month %d: reported %s %r kcal/person/day, allocation converts to %r"
                                    % (key["iso3"], ri + 1, m, n, float(got[n][m]), float(want[n][m])), rp))
        bad = np.where(np.abs(imm + new - crops) > 1e-9 * np.maximum(1.0, np.abs(crops)))[0]
        if len(bad):
            m = int(bad[0])
            vs.append(violation("crop_split_adds_up", k, "%s round %d month %d: eaten immediately %r + from new storage %r != crops eaten %r"
                                % (key["iso3"], ri + 1, m, float(imm[m]), float(new[m]), float(crops[m])), rp))
        total = sum(got.values()) + imm + new
        headline = float(interp.percent_people_fed)
        by_sum = float(np.min(total) / KD * 100.0)
        if not common.close(headline, by_sum, rel=1e-9):
            vs.append(violation("headline_is_worst_month_of_breakdown", k, "%s round %d: headline %.9g, worst month of the summed breakdown %.9g" % (key["iso3"], ri + 1, headline, by_sum), rp))
        # the rounded percent attributes differ from the unrounded series only by the documented rounding
        for n, dec in (("stored_food", 3), ("outdoor_crops", 3), ("immediate_outdoor_crops", 1), ("new_stored_outdoor_crops", 3), ("seaweed", 3),
                       ("cell_sugar", 9), ("scp", 9), ("greenhouse", 9), ("fish", 9), ("meat", 9), ("milk", 9)):
            a = np.asarray(getattr(interp, n).kcals, dtype=float)
            ref = {"outdoor_crops": imm + new, "immediate_outdoor_crops": imm, "new_stored_outdoor_crops": new}.get(n, got.get(n)) / KD * 100.0
            if (np.abs(a - ref) > 0.5 * 10 ** -dec + 1e-9 * np.maximum(1.0, np.abs(ref))).any():
                vs.append(violation("percent_series_match_breakdown", dict(k, food=n), "%s round %d: %s percent series deviates from the breakdown by more than its rounding" % (key["iso3"], ri + 1, n), rp))
        # 0.01 % of the optimum, plus 1e-6 percentage points: the solver's primal tolerance (1e-7) on a near-zero optimum
        if lp["kind"] == "h" and abs(headline - lp["obj"]) > 1e-4 * abs(lp["obj"]) + 1e-6:
            vs.append(violation("headline_within_0.01pct_of_optimum", k, "%s round %d: headline %.9g vs optimiser's optimum %.9g (%.4f %% off)"
                                % (key["iso3"], ri + 1, headline, lp["obj"], 100 * (headline - lp["obj"]) / max(1e-300, abs(lp["obj"]))), rp))
        # saved table
        import re
        import sys
        root = sys.modules["src.optimizer.interpret_results"].repo_root     # where this process's model writes its tables
        fn = os.path.join(root, "results", re.sub(r'[\\/*?:"<>|\n]', "_", title) + "_ykcals.csv")
        try:
            df = supplies._S["pd"].read_csv(fn)
            cols = {"fish": got["fish"], "cell_sugar": got["cell_sugar"], "scp": got["scp"], "greenhouse": got["greenhouse"], "seaweed": got["seaweed"],
                    "milk": got["milk"], "meat": got["meat"], "immediate_outdoor_crops": imm, "new_stored_outdoor_crops": new, "stored_food": got["stored_food"]}
            for col, arr in cols.items():
                if col not in df.columns or len(df[col]) != N or (np.abs(df[col].values - arr) > 1e-9 * np.maximum(1.0, np.abs(arr))).any():
                    vs.append(violation("saved_table_equals_result", dict(k, column=col), "%s round %d: column %s of %s differs from the returned series" % (key["iso3"], ri + 1, col, fn), rp))
            extra = [c_ for c_ in df.columns if c_ not in cols and not c_.startswith("Unnamed")]
            if extra:
                vs.append(violation("saved_table_equals_result", dict(k, column="extra"), "unexpected columns %s" % extra, rp))
        except FileNotFoundError:
            vs.append(violation("saved_table_equals_result", dict(k, column="file"), "%s round %d: %s was not written" % (key["iso3"], ri + 1, fn), rp))
    return vs


CLASS_KCAL = {"small": 2.36 * 1525 / 1e9, "medium": 24.6 * 3590 / 1e9}


def herd_reference(h, c):
    """(meat energy per month after distribution waste, milk energy per month after both wastes) from the herd lists"""
    np = _P["np"]
    animals = h["obj"].all_animals
    N = len(animals[0].slaughter)
    meat = np.zeros(N)
    for a in animals:
        if a.animal_type == "chicken":
            k = c["KG_MEAT_PER_CHICKEN"] * 1525 / 1e9
        elif a.animal_type == "pig":
            k = c["KG_MEAT_PER_PIG"] * 3590 / 1e9
        elif a.animal_size == "large":
            k = c.get("kg_meat_per_large_animal", 269.7) * 2750 / 1e9
        else:
            k = CLASS_KCAL[a.animal_size]
        meat += np.asarray(a.slaughter, dtype=float) * k
    meat *= 1 - c["WASTE_DISTRIBUTION"]["MEAT"] / 100.0
    milk_head = np.zeros(len(animals[0].population))
    for a in animals:
        if "milk" in a.animal_type:
            milk_head += np.asarray(a.population, dtype=float)
    milk = milk_head * c["MILK_YIELD_KG_PER_MILK_BEARING_ANIMAL_PER_YEAR"] / 12.0 * 610 / 1e9
    milk *= (1 - c["WASTE_DISTRIBUTION"]["MILK"] / 100.0) * (1 - c["WASTE_RETAIL"] / 100.0)
    if not c["ADD_MILK"]:
        milk = milk * 0
    return meat, milk


def c_add_meat(lp):
    return bool(lp["consts"].get("ADD_MEAT"))


def mon_c05_c18(cap, key, rp, want):
    np = _P["np"]
    v5, v18 = [], []
    if not cap["lp"] or not cap["herd"]:
        return v5, v18
    c = cap["lp"][0]["consts"]["inputs"]
    N = c["NMONTHS"]
    br = branch_of(cap)
    herds = cap["herd"]
    # which herd run belongs to which LP round
    if br == "full":
        pairs = [(0, herds[0]), (1, herds[1]), (2, herds[2] if len(herds) > 2 else herds[0])]
    elif br == "round2_aborted":
        pairs = [(0, herds[0]), (1, herds[0])]       # round 3 reuses the no-feed herd
    else:
        pairs = [(0, herds[0])]
    for ri, h in pairs:
        lp = cap["lp"][ri]
        k = dict(key, round=ri + 1)
        meat, milk = herd_reference(h, c)
        got_meat = np.asarray(lp["tc"]["each_month_meat_slaughtered"].kcals, dtype=float)
        got_milk = np.asarray(lp["tc"]["milk_kcals"], dtype=float)
        scale = max(1.0, float(np.abs(meat).max()))
        if "C05" in want:
            if lp["kind"] == "h":
                bad = np.where(np.abs(got_meat - meat) > 1e-9 * scale)[0]
                if len(bad):
                    m = int(bad[0])
                    v5.append(violation("meat_matches_slaughter", k, "%s round %d month %d: meat offered %r, herd slaughter x per-head yields x (1-waste) = %r" % (key["iso3"], ri + 1, m, got_meat[m], meat[m]), rp))
            elif abs(got_meat.sum() - meat.sum()) > 1e-6 * max(1.0, meat.sum()):
                v5.append(violation("meat_total_matches_slaughter", k, "%s round %d: total meat offered %r, herd total %r" % (key["iso3"], ri + 1, got_meat.sum(), meat.sum()), rp))
            if abs(float(lp["consts"]["meat_summed_consumption"]) - meat.sum()) > 1e-6 * max(1.0, meat.sum()):
                v5.append(violation("meat_total_matches_slaughter", dict(k, what="stock"), "%s round %d: meat stock %r, herd total %r" % (key["iso3"], ri + 1, float(lp["consts"]["meat_summed_consumption"]), meat.sum()), rp))
            if lp["kind"] == "h" and lp.get("vals") and "meat_eaten" in lp["vals"] and c_add_meat(lp):
                # what the programme actually lets people eat, judged against the herd simulation itself (not against the
                # series handed over): month by month when nothing may be kept between months, cumulatively otherwise
                d = lp.get("d") or reflp.inputs_of(lp["consts"], lp["tc"])
                if d["mt"]:
                    eat = np.asarray(lp["vals"]["meat_eaten"], dtype=float) * d["mt"]["g"]
                    tolm = lambda x: 1e-5 * max(1.0, x) + 1e-6
                    if d["store"]:
                        ce, cs = np.cumsum(eat), np.cumsum(meat)
                        bad = [m for m in range(N) if ce[m] > cs[m] + tolm(cs[m])]
                        if bad:
                            v5.append(violation("meat_eaten_within_herd_slaughter", k, "%s round %d: meat eaten by month %d is %r, the herds' slaughter so far yields %r" % (key["iso3"], ri + 1, bad[0], ce[bad[0]], cs[bad[0]]), rp))
                    else:
                        bad = [m for m in range(N) if eat[m] > meat[m] + tolm(meat[m])]
                        if bad:
                            v5.append(violation("meat_eaten_within_herd_slaughter", k, "%s round %d month %d: meat eaten %r, that month's slaughter yields %r (no storage between months)" % (key["iso3"], ri + 1, bad[0], eat[bad[0]], meat[bad[0]]), rp))
            bad = np.where(np.abs(got_milk - milk) > 1e-9 * max(1.0, float(np.abs(milk).max())))[0]
            if len(bad):
                m = int(bad[0])
                v5.append(violation("milk_matches_herd", k, "%s round %d month %d: milk offered %r, milking herd x yield x (1-wastes) = %r" % (key["iso3"], ri + 1, m, got_milk[m], milk[m]), rp))
            gu = np.asarray(h["obj"].grass_used.kcals, dtype=float)
            fu = np.asarray(h["obj"].feed_used.kcals, dtype=float)
            if (gu > h["grass"] * (1 + 1e-9) + 1e-9).any():
                m = int(np.argmax(gu - h["grass"]))
                v5.append(violation("grass_within_available", k, "%s round %d month %d: herds ate %r grass, %r available" % (key["iso3"], ri + 1, m, gu[m], h["grass"][m]), rp))
            charged = np.asarray(lp["tc"]["feed"].kcals, dtype=float)
            if lp["kind"] == "h":
                if charged.max(initial=0.0) == 0 and (h["feed"].max(initial=0.0) > 0 or fu.max(initial=0.0) > 0):
                    v5.append(violation("no_feed_round_runs_herds_on_no_feed", k, "%s round %d charges no feed but its herds were given %r" % (key["iso3"], ri + 1, float(h["feed"].max())), rp))
                if ri == len(cap["lp"]) - 1:
                    bad = np.where(charged < fu - 1e-9 * np.maximum(1.0, fu))[0]
                    if len(bad):
                        m = int(bad[0])
                        v5.append(violation("final_feed_charge_covers_herd_feed", k, "%s final round month %d: charged %r < feed the herds ate %r" % (key["iso3"], m, charged[m], fu[m]), rp))
    if "C18" in want and br == "full":
        # real hand-offs: minimum human consumption handed to the feed round
        second = cap.get("compute_parameters_second_round")
        r1 = cap["interp"][0][0]
        mh = cap["lp"][1]["mh"]
        T = c["MINIMUM_PERCENT_FED_BEFORE_NONHUMAN_CONSUMPTION_ALLOWED"]
        KD = c["NUTRITION"]["KCALS_DAILY"]
        capv = KD * min(float(r1.percent_people_fed), T) / 100.0
        order = ["fish", "meat", "dairy", "greenhouse", "outdoor_crops", "stored_food", "methane_scp", "cellulosic_sugar", "seaweed"]
        avail = {"fish": r1.fish_kcals_equivalent.kcals, "meat": r1.meat_kcals_equivalent.kcals, "dairy": r1.milk_kcals_equivalent.kcals,
                 "greenhouse": r1.greenhouse_kcals_equivalent.kcals,
                 "outdoor_crops": np.asarray(r1.immediate_outdoor_crops_kcals_equivalent.kcals) + np.asarray(r1.new_stored_outdoor_crops_kcals_equivalent.kcals),
                 "stored_food": r1.stored_food_kcals_equivalent.kcals, "methane_scp": r1.scp_kcals_equivalent.kcals,
                 "cellulosic_sugar": r1.cell_sugar_kcals_equivalent.kcals, "seaweed": r1.seaweed_kcals_equivalent.kcals}
        k = dict(key, handoff="min_human_needs")
        if list(mh.keys()) != order:
            v18.append(violation("min_needs_foods", k, "foods %s" % list(mh.keys()), rp))
        else:
            E = np.array([np.asarray(mh[f].kcals, dtype=float) for f in order])
            A = np.array([np.asarray(avail[f], dtype=float) for f in order])
            tot = E.sum(axis=0)
            bad = np.where(np.abs(tot - capv) > 1e-6 * max(1.0, capv))[0]
            if len(bad):
                m = int(bad[0])
                v18.append(violation("min_needs_sum", k, "%s month %d: pinned consumption sums to %r kcal/person/day, expected min(no-feed result %.4f %%, threshold %s) = %r"
                                     % (key["iso3"], m, tot[m], float(r1.percent_people_fed), T, capv), rp))
            if (E > A + 1e-6 * np.maximum(1.0, A)).any():
                j, m = np.unravel_index(int(np.argmax(E - A)), E.shape)
                v18.append(violation("min_needs_within_round1", k, "%s month %d: pinned %s %r > eaten in the no-feed round %r" % (key["iso3"], m, order[j], E[j, m], A[j, m]), rp))
            for m in range(N):
                for j in range(1, len(order)):
                    if E[j, m] > 1e-6 and (np.abs(E[:j, m] - A[:j, m]) > 1e-6 * np.maximum(1.0, A[:j, m])).any():
                        v18.append(violation("min_needs_priority", k, "%s month %d: %s pinned before earlier foods are exhausted" % (key["iso3"], m, order[j]), rp))
                        break
                else:
                    continue
                break
        # meat re-timing between rounds
        m1 = np.asarray(cap["lp"][0]["tc"]["each_month_meat_slaughtered"].kcals, dtype=float)
        m2 = np.asarray(cap["lp"][1]["tc"]["each_month_meat_slaughtered"].kcals, dtype=float)
        herd2, _ = herd_reference(herds[1], c)
        k = dict(key, handoff="meat_retiming")
        if abs(m2.sum() - herd2.sum()) > 1e-6 * max(1.0, herd2.sum()):
            v18.append(violation("retime_total", k, "%s: re-timed meat total %r, herd total %r" % (key["iso3"], m2.sum(), herd2.sum()), rp))
        if (m2 < -1e-9).any() or (m2 < m1 - 1e-6 * np.maximum(1.0, m1)).any():
            m = int(np.argmin(m2 - m1))
            v18.append(violation("retime_at_least_round1", k, "%s month %d: re-timed meat %r below no-feed level %r" % (key["iso3"], m, m2[m], m1[m]), rp))
        # final feed / biofuel adjustment
        third = cap.get("compute_parameters_third_round")
        if third is not None and len(herds) > 2:
            tc3 = cap["lp"][2]["tc"]
            feed3 = np.asarray(tc3["feed"].kcals, dtype=float)
            bio3 = np.asarray(tc3["biofuel"].kcals, dtype=float)
            fu3 = np.asarray(herds[2]["obj"].feed_used.kcals, dtype=float)
            i2 = cap["interp"][1][0]
            bio2 = np.asarray(i2.biofuels_sum_kcals_equivalent.in_units_bil_kcals_thou_tons_thou_tons_per_month().kcals, dtype=float)
            fd = np.array(supplies.ref_demand(c["FEED_KCALS"], c["DELAY"]["FEED_SHUTOFF_MONTHS"], N))
            bd = np.array(supplies.ref_demand(c["BIOFUEL_KCALS"], c["DELAY"]["BIOFUEL_SHUTOFF_MONTHS"], N))
            k = dict(key, handoff="feed_biofuel_bump")
            if (feed3 < fu3 - 1e-9 * np.maximum(1.0, fu3)).any() or (bio3 < bio2 - 1e-6 * np.maximum(1.0, bio2)).any():
                v18.append(violation("bump_never_lowers", k, "%s: final feed/biofuel below the round-3 herd feed / round-2 biofuel" % key["iso3"], rp))
            if (feed3 > np.maximum(fu3, fd) + 1e-6 * np.maximum(1.0, fd) + 1e-6).any():
                m = int(np.argmax(feed3 - np.maximum(fu3, fd)))
                v18.append(violation("bump_feed_within_demand", k, "%s month %d: final feed %r above max(herd feed %r, demand %r)" % (key["iso3"], m, feed3[m], fu3[m], fd[m]), rp))
            if (bio3 > np.maximum(bio2, bd) + 1e-6 * np.maximum(1.0, bd) + 1e-6).any():
                m = int(np.argmax(bio3 - np.maximum(bio2, bd)))
                v18.append(violation("bump_biofuel_within_demand", k, "%s month %d: final biofuel %r above max(round-2 biofuel %r, demand %r)" % (key["iso3"], m, bio3[m], bio2[m], bd[m]), rp))
    return v5, v18


BANNERS = ("ERROR", "assert percent_fed_round1", "ASSERT FAILED")


def mon_c16(cap, key, rp):
    vs = []
    np = _P["np"]
    if cap["error"]:
        vs.append(violation("run_completes", key, "%s %s %s: %s" % (key["iso3"], key["preset"], key["deviation"], cap["error"]), rp))
        return vs
    res = cap["result"]
    if res is None or not np.isfinite(float(res.percent_people_fed)) or float(res.percent_people_fed) < 0:
        vs.append(violation("finite_nonnegative_result", key, "%s: result %r" % (key["iso3"], None if res is None else res.percent_people_fed), rp))
    for b in BANNERS:
        if b in cap["stdout"]:
            line = [l.strip() for l in cap["stdout"].splitlines() if b in l][0][:160]
            vs.append(violation("no_validation_banner", dict(key, banner=b), "%s %s %s: the run printed a validation banner: %s" % (key["iso3"], key["preset"], key["deviation"], line), rp))
            break
    return vs


def run_job(job, chain_tags=None):
    iso, pn, tag, opts = job
    want = run_job.want
    t0 = time.time()
    title = "v_%s_%s_%s" % (pn, iso, common.digest(tag))
    key = {"iso3": iso, "preset": pn, "deviation": tag, "case": "%s|%s|%s" % (iso, pn, tag)}
    rp = {"iso3": iso, "preset": pn, "deviation": tag, "opts": options.clean(opts)}
    if chain_tags:
        # this run follows, in the same process, the runs of the same country and preset under these deviations (in this order)
        rp["chain_tags"] = list(chain_tags)
    out = {p: [] for p in PIDS}
    st = {"key": key, "t": 0, "lp": 0}
    try:
        cap = execute(iso, opts, title)
        if options.clean(opts) != cap["opts_after"]:
            out["C16"].append(violation("options_unmodified", key, "the run modified the caller's option dictionary", rp))
        out["C16"] += mon_c16(cap, key, rp)
        st["branch"] = branch_of(cap)
        st["failed"] = bool(cap["error"])
        if cap["lp"]:
            # a failed run still yields the LP instances solved before the failure
            n_ok = min(len(cap["lp"]), len(cap["interp"])) if not cap["error"] else len(cap["lp"])
            v1, v2, s12 = mon_c01_c02(cap, key, rp, want)
            out["C01"], out["C02"] = v1, v2
            st.update(lp=s12["lp"], tight=s12["tight"], max_rel=s12["max_rel"], ref_unsolved=s12.get("ref_unsolved", 0),
                      max_rel_cbc=s12.get("max_rel_cbc", 0.0), both_infeasible=s12.get("both_infeasible", 0), borderline=s12.get("borderline", 0))
            if not cap["error"]:
                v3, s3 = mon_c03(cap, key, rp)
                out["C03"] = v3
                st.update(s3)
                out["C04"] = mon_c04(cap, key, rp)
                out["C05"], out["C18"] = mon_c05_c18(cap, key, rp, want)
                st["heads"] = [round(float(i.percent_people_fed), 6) for i, _ in cap["interp"]]
                st["months"] = cap["lp"][0]["consts"]["NMONTHS"]
        import sys
        rdir = os.path.join(sys.modules["src.optimizer.interpret_results"].repo_root, "results")
        for f in os.listdir(rdir):
            if f.startswith(title + "_"):
                try:
                    os.remove(os.path.join(rdir, f))
                except FileNotFoundError:
                    pass
    except Exception as e:
        st["harness_error"] = "%r %s" % (e, traceback.format_exc()[-500:])
    st["t"] = round(time.time() - t0, 2)
    for p in out:
        out[p] = out[p][:8]
    return out, st


run_job.want = PIDS


# ------------------------------------------------------------------ plan


QUICK_L0 = ("ms_example_resilient", "ms_worst", "yaml_net_baseline")
QUICK_L1 = ("ms_example_resilient", "ms_worst")
THOROUGH_L1 = ("ms_example_resilient", "ms_worst", "yaml_nw_reduced")
THOROUGH_L2 = ("ms_example_resilient", "ms_worst")
L2_COUNTRIES = ("USA", "IND", "LUX", "ARG", "NGA", "JPN")


def run_unit(unit):
    """a unit of the plan is one run, or a CHAIN: the preset's default run followed by every single deviation of it for one country,
    executed one after the other in ONE process, so that anything the code remembers per country across scenarios (a memo keyed
    without one of the options, a table modified in place) reaches the per-run monitors of every property"""
    if unit[0] != "CHAIN":
        return [run_job(unit)]
    out, tags = [], []
    for job in unit[1]:
        out.append(run_job(job, chain_tags=tags))
        tags.append(job[2])
    return out


def chain_of(iso, pn, base):
    return ("CHAIN", [(iso, pn, "default", base)] + [(iso, pn, tag, o) for tag, o in options.single_deviations(base)])


def l1_countries(isos, seed):
    """countries that get the deviation layer in the quick tier: one per data-shape class (rotated inside the class by the seed)
    plus two rotated over the rest; the classes are computed from the shipped table, nothing is named by hand"""
    rows = supplies._S["rows"]

    def f(i, k):
        return float(rows[i][k])
    classes = [
        ("population below 1 million with feed or biofuel demand", [i for i in isos if f(i, "population") < 1e6 and f(i, "feed_kcals") + f(i, "biofuel_kcals") > 0]),
        ("population between 1 and 10 million", [i for i in isos if 1e6 <= f(i, "population") < 1e7]),
        ("no seaweed potential (landlocked or no data)", [i for i in isos if f(i, "initial_seaweed_fraction") == 0]),
        ("no cropland", [i for i in isos if f(i, "crop_area_1000ha") == 0]),
        ("largest seaweed potential (top 12)", sorted(isos, key=lambda i: -f(i, "initial_seaweed_fraction"))[:12]),
        ("biofuel demand above feed demand", [i for i in isos if f(i, "biofuel_kcals") > f(i, "feed_kcals")]),
    ]
    sel, why = [], {}
    for name, members in classes:
        members = [i for i in members if i not in sel]
        if members:
            pick = common.rotate(members, seed, 1)[0]
            sel.append(pick)
            why[pick] = name
    for pick in common.rotate([i for i in isos if i not in sel], seed, 2):
        sel.append(pick)
        why[pick] = "rotated over the remaining countries"
    return sel, why


def rare_paths():
    with open(os.path.join(common.VERIF, "mc", "rare_paths.json")) as f:
        return json.load(f)["runs"]


def plan(tier, seed):
    isos = options.countries()
    jobs = []
    small = [i for i in isos if float(supplies._S["rows"][i]["population"]) < 1e7]
    landlocked = [i for i in isos if float(supplies._S["rows"][i]["initial_seaweed_fraction"]) == 0]
    if tier == "quick":
        for pn in QUICK_L0:
            for iso in isos:
                jobs.append((iso, pn, "default", options.preset(pn)))
        jobs.append(("WOR", "g_example_resilient", "default", options.preset("g_example_resilient")))
        jobs.append(("WOR", "g_worst", "default", options.preset("g_worst")))
        sel, why = l1_countries(isos, seed)
        for pn in QUICK_L1:
            base = options.preset(pn)
            for iso in sel:
                jobs.append(chain_of(iso, pn, base))
        rare = rare_paths()
        have = {(j[0], j[1], j[2]) for u in jobs for j in (u[1] if u[0] == "CHAIN" else [u])}
        for r in rare:
            o = options.preset(r["preset"])
            o.update(r["dev"])
            tag = "&".join("%s=%s" % kv for kv in sorted(r["dev"].items())) or "default"
            if (r["iso3"], r["preset"], tag) not in have:
                jobs.append((r["iso3"], r["preset"], tag, o))
        bound = {"layer0": "%d presets x all %d countries + 2 world presets" % (len(QUICK_L0), len(isos)),
                 "layer1": "every single deviation (%d) of %s on %s, as one chain per (country, preset) in one process (default run first)" % (
                     len(options.single_deviations(options.preset(QUICK_L1[0]))), list(QUICK_L1), ["%s: %s" % (i, why[i]) for i in sel]),
                 "rare_paths": "%d fixed runs that the thorough grid showed to take rare controller paths (mc/rare_paths.json)" % len(rare)}
    else:
        for pn in options.PRESETS:
            for iso in isos:
                jobs.append((iso, pn, "default", options.preset(pn)))
        for pn in options.GLOBAL_PRESETS:
            base = options.preset(pn)
            jobs.append(("WOR", pn, "default", base))
            for tag, o in options.single_deviations(base):
                jobs.append(("WOR", pn, tag, o))
        for pn in THOROUGH_L1:
            base = options.preset(pn)
            for iso in isos:
                jobs.append(chain_of(iso, pn, base))
        for pn in THOROUGH_L2:
            base = options.preset(pn)
            for iso in L2_COUNTRIES:
                for tag, o in options.pair_deviations(base):
                    jobs.append((iso, pn, tag, o))
        bound = {"layer0": "all %d country presets x all %d countries + %d world presets" % (len(options.PRESETS), len(isos), len(options.GLOBAL_PRESETS)),
                 "layer1": "every single deviation of %s on all countries, as one chain per (country, preset) in one process (default run first); of every world preset on the world" % list(THOROUGH_L1),
                 "layer2": "every pair of deviations in different families of %s on %s" % (list(THOROUGH_L2), list(L2_COUNTRIES))}
    return jobs, bound


# ------------------------------------------------------------------ cache + driver


def tree_key(tier, seed):
    h = hashlib.sha256()
    roots = [os.path.join(common.REPO, d) for d in ("src", "data", "scenarios")]
    for f in ("pipeline.py", "reflp.py", "supplies.py", "options.py", "common.py", "rare_paths.json"):     # the engine itself
        p = os.path.join(common.VERIF, "mc", f)
        h.update(f.encode())
        with open(p, "rb") as fh:
            h.update(hashlib.sha256(fh.read()).digest())
    for root in roots:
        for dp, dn, fn in sorted(os.walk(root)):
            dn.sort()
            if "__pycache__" in dp:
                continue
            for f in sorted(fn):
                if f.endswith(".pyc"):
                    continue
                p = os.path.join(dp, f)
                h.update(p.encode())
                with open(p, "rb") as fh:
                    h.update(hashlib.sha256(fh.read()).digest())
    h.update(("%s|%s" % (tier, seed if tier == "quick" else 0)).encode())
    return h.hexdigest()[:24]


def explore(tier, seed):
    """returns the stored per-property rows for this tree/tier/seed, running the plan on a cache miss"""
    cache_dir = os.path.join(common.VERIF, ".cache")
    os.makedirs(cache_dir, exist_ok=True)
    key = tree_key(tier, seed)
    path = os.path.join(cache_dir, "pipeline_%s.json" % key)
    use_cache = not os.environ.get("VERIF_NO_CACHE")
    with open(os.path.join(cache_dir, "lock_%s_%s" % (tier, key)), "w") as lock:
        fcntl.flock(lock, fcntl.LOCK_EX)
        if use_cache and os.path.exists(path):
            with open(path) as f:
                data = json.load(f)
            data["cache"] = {"hit": True, "key": key, "populated_at": data.get("at"), "populated_wall_s": data.get("wall_s")}
            return data
        t0 = time.time()
        supplies.init()
        jobs, bound = plan(tier, seed)
        # longest units first (chains), so that the pool does not end on one long chain
        units = sorted(jobs, key=lambda u: -(len(u[1]) if u[0] == "CHAIN" else 1))
        res = [r for unit_res in common.pmap(run_unit, units, init_fn=init, chunksize=1) for r in unit_res]
        n_runs = sum(len(u[1]) if u[0] == "CHAIN" else 1 for u in jobs)
        bound = dict(bound, chains=sum(1 for u in jobs if u[0] == "CHAIN"))
        data = {"at": time.strftime("%Y-%m-%dT%H:%M:%SZ", time.gmtime()), "bound": bound, "n_jobs": n_runs,
                "violations": {p: [] for p in PIDS}, "stats": [], "key": key}
        for out, st in res:
            for p in PIDS:
                data["violations"][p].extend(out[p])
            data["stats"].append(st)
        data["wall_s"] = round(time.time() - t0, 1)
        data = json.loads(json.dumps(data, default=common._jsonable))
        tmp = path + ".tmp%d" % os.getpid()
        with open(tmp, "w") as f:
            json.dump(data, f)
        os.replace(tmp, path)
        # keep the cache directory small
        files = sorted((os.path.getmtime(os.path.join(cache_dir, f)), f) for f in os.listdir(cache_dir) if f.startswith("pipeline_"))
        for _, f in files[:-6]:
            os.remove(os.path.join(cache_dir, f))
        data["cache"] = {"hit": False, "key": key}
        return data


def coverage_for(pid, data):
    stats = data["stats"]
    ok = [s for s in stats if not s.get("harness_error")]
    lp = sum(s.get("lp", 0) for s in ok)
    months = sum(s.get("lp", 0) * s.get("months", 0) for s in ok)
    from collections import Counter
    br = Counter(s.get("branch", "none") for s in ok)
    tight = Counter(t for s in ok for t in s.get("tight", []))
    cov = {
        "executions": len(ok), "states": max(1, months), "transitions": max(1, months - lp if months else len(ok)),
        "traces_validated_against_impl": len(ok), "lp_instances": lp,
        "distinct_outcomes": len({json.dumps(s.get("heads")) for s in ok}),
        "controller_branches": dict(br), "runs_that_failed": sum(1 for s in ok if s.get("failed")),
        "ledger_clauses_binding_somewhere": dict(tight), "reference_lp_unsolved_by_highs": sum(s.get("ref_unsolved", 0) for s in ok),
        "max_rel_gap_reported_vs_own_lp_optimum": max([s.get("max_rel_cbc", 0.0) for s in ok] or [0.0]),
        "instances_infeasible_in_both_formulations": sum(s.get("both_infeasible", 0) for s in ok),
        "instances_decided_with_solver_feasibility_tolerance": sum(s.get("borderline", 0) for s in ok), "max_rel_gap_to_reference_lp": max([s.get("max_rel", 0.0) for s in ok] or [0.0]),
        "bound": data["bound"], "cache": data["cache"], "engine_wall_s": data.get("wall_s"),
        "alphabet": "choice points: country row (164 + world), preset, option-family deviation(s); a state is one (execution, round, month) of a solved allocation; a transition the month step within a round",
        "samples": [s["key"] for s in ok[:2]] + [s["key"] for s in ok[-2:]],
        "caps_hit": [], "harness_errors": [s["harness_error"][:300] for s in stats if s.get("harness_error")][:5],
    }
    if cov["harness_errors"]:
        cov["caps_hit"].append("%d executions hit a harness error" % len([s for s in stats if s.get("harness_error")]))
    return cov


def run_property(pid, tier, seed, oracle, assumptions=()):
    data = explore(tier, seed)
    cov = coverage_for(pid, data)
    cov["oracle"] = oracle
    if cov["harness_errors"]:
        raise RuntimeError("pipeline harness errors: %s" % cov["harness_errors"][:2])
    return {"coverage": cov, "violations": [common.Violation(v) for v in data["violations"][pid]], "assumptions": list(assumptions)}


def replay(pid, rp):
    init()
    run_job.want = PIDS
    if rp.get("chain_tags"):
        base = options.preset(rp["preset"])
        devs = dict(options.single_deviations(base))
        devs["default"] = base
        for t in rp["chain_tags"]:
            run_job((rp["iso3"], rp["preset"], t, devs[t]))        # the same history, in the same process
    out, st = run_job((rp["iso3"], rp["preset"], rp["deviation"], rp["opts"]))
    if st.get("harness_error"):
        raise RuntimeError(st["harness_error"])
    return out[pid]
