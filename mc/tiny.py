"""Tiny-instance product on the real Optimizer (C01/C02 deepening): 3- to 5-month programmes whose every supply is
drawn from a small menu, so that each balance binds in some instance and a wrong coefficient shows with the
shortest counterexample.  Each instance is solved by the real Optimizer.optimize_to_humans and compared with the
independent reference LP (reflp) and the ledger audit."""
import copy
import itertools
import types

from . import common, options, pipeline, reflp
from .common import violation

_T = {}


def base_instance():
    """a real captured optimiser input (USA, all resilient foods) used as the template for constants"""
    if "base" not in _T:
        pipeline.init()
        import os
        import sys
        title = "tiny_base_%d" % os.getpid()       # workers share one results directory: keep file names apart
        cap = pipeline.execute("USA", options.preset("ms_example_resilient"), title, want_inputs=True)
        _T["base"] = cap["inputs"][0]
        rdir = os.path.join(sys.modules["src.optimizer.interpret_results"].repo_root, "results")
        for f in os.listdir(rdir):
            if f.startswith(title + "_"):
                try:
                    os.remove(os.path.join(rdir, f))
                except FileNotFoundError:
                    pass
    return _T["base"]


def food(vals):
    np = pipeline._P["np"]
    n = len(vals)
    return pipeline._P["Food"](np.array(vals, dtype=float), np.zeros(n), np.zeros(n), "billion kcals each month",
                               "thousand tons each month", "thousand tons each month")


def build(N, need, stock, crops, meat, scp, cs, const_h, seaweed, store, feed, biofuel, waste):
    """consts/time_consts for an N-month programme; all series in multiples of the monthly need"""
    np = pipeline._P["np"]
    c0, t0 = base_instance()
    c = copy.deepcopy(c0)
    pop = need * 1e9 / (30 * c["KCALS_DAILY"])
    c.update(NMONTHS=N, POP=pop, POP_BILLIONS=pop / 1e9, BILLION_KCALS_NEEDED=need, KCALS_MONTHLY=30 * c["KCALS_DAILY"],
             ADD_STORED_FOOD=True, ADD_OUTDOOR_GROWING=True, ADD_MEAT=True, ADD_METHANE_SCP=scp is not None,
             ADD_CELLULOSIC_SUGAR=cs is not None, ADD_SEAWEED=bool(seaweed), STORE_FOOD_BETWEEN_YEARS=store,
             meat_summed_consumption=float(sum(meat)) * need)
    for k in ("CROP_WASTE_RETAIL", "STORED_FOOD_WASTE_RETAIL", "MEAT_WASTE_RETAIL", "SCP_RETAIL_WASTE", "CELL_SUGAR_RETAIL_WASTE", "SEAWEED_WASTE_RETAIL"):
        c[k] = waste
    c["inputs"] = dict(c["inputs"], OG_USE_BETTER_ROTATION=False, INCLUDE_FAT=False, INCLUDE_PROTEIN=False, COUNTRY_CODE="TINY", NMONTHS=N)
    sf = types.SimpleNamespace(initial_available=pipeline._P["Food"](stock * need, 0.0, 0.0, "billion kcals", "thousand tons", "thousand tons"))
    c["stored_food"] = sf
    if seaweed:
        c["INITIAL_SEAWEED"] = 1.0
        c["INITIAL_BUILT_SEAWEED_AREA"] = 0.1
    t = {
        "built_area": np.array([0.1 + 0.5 * m for m in range(N)]), "growth_rates_monthly": np.array([250.0] * N),
        "fish": types.SimpleNamespace(to_humans=food([const_h * need / 3.0] * N)), "greenhouse_crops": food([const_h * need / 3.0] * N),
        "milk_kcals": np.array([const_h * need / 3.0] * N), "milk_fat": np.zeros(N), "milk_protein": np.zeros(N),
        "methane_scp": food([(scp or 0.0) * need] * N), "cellulosic_sugar": food([(cs or 0.0) * need] * N),
        "outdoor_crops": types.SimpleNamespace(production=food([x * need for x in crops])),
        "each_month_meat_slaughtered": food([x * need for x in meat]),
        "max_consumed_culled_kcals_each_month": np.cumsum([x * need for x in meat]),
        "feed": food([feed * need] * N), "biofuel": food([biofuel * need] * N),
        "nonhuman_consumption": food([(feed + biofuel) * need] * N),
    }
    return c, t


def instances(tier):
    levels = (0.0, 0.4, 1.5)
    Ns = (3,) if tier == "quick" else (3, 5)
    for N in Ns:
        crop_pats = [[a] * N for a in levels] + [[1.5] + [0.0] * (N - 1), [0.0] * (N - 1) + [1.5]]
        meat_pats = [[0.0] * N, [0.3] * N, [0.0] * (N - 1) + [1.2], [1.2] + [0.0] * (N - 1)]
        for stock, crops, meat, scp, cs, const_h, sw, store, fb, waste in itertools.product(
                levels, crop_pats, meat_pats, (None, 0.3, 0.9), (None, 0.2, 0.6) if tier == "thorough" else (None,), (0.0, 0.3),
                (False, True), (True, False), ((0.0, 0.0), (0.1, 0.05), (0.05, 0.2)), (0.0, 20.0) if tier == "thorough" else (20.0,)):
            # SCP / sugar both below and far above what people may eat of them (the surplus must go to feed or biofuel, where the
            # per-use caps bind); charges with feed above biofuel and biofuel above feed
            yield dict(N=N, need=1000.0, stock=stock, crops=crops, meat=meat, scp=scp, cs=cs, const_h=const_h, seaweed=sw, store=store,
                       feed=fb[0], biofuel=fb[1], waste=waste)


def check_instance(spec):
    np = pipeline._P["np"]
    c, t = build(**spec)
    key = {"tiny": common.digest(spec)}
    rp = {"tiny": spec}
    Opt = pipeline._P["Optimizer"]
    v1, v2 = [], []
    with common.quiet():
        o = Opt(c, t)
        try:
            model, variables, _, obj = o.optimize_to_humans(c, t)
            solved = True
        except AssertionError:
            solved = False
    d = reflp.inputs_of(c, t)
    status, ref = reflp.solve_reference(d, "h")
    if not solved:
        if status == 0:
            v2.append(violation("model_infeasible_but_reference_feasible", key, "the model cannot solve %s although a physically feasible allocation exists (reference optimum %.6g)" % (spec, ref), rp))
        return v1, v2, None
    if status in (1, 4):
        return v1, v2, None
    if status != 0:
        v2.append(violation("reference_infeasible", key, "model optimum %.6g for %s but no physically feasible allocation exists" % (obj, spec), rp))
        return v1, v2, round(obj, 6)
    if abs(obj - ref) > 1e-5 * max(1.0, abs(ref), abs(obj)):
        v2.append(violation("optimum_matches_reference", key, "model optimum %.8g, independent formulation %.8g for %s" % (obj, ref, spec), rp))
    vals = {}
    for name, lst in variables.items():
        if isinstance(lst, list):
            vals[name] = np.array([float(v.varValue) if hasattr(v, "varValue") and v.varValue is not None else (0.0 if hasattr(v, "varValue") else float(v)) for v in lst])
    led, tight, _, _ = reflp.ledger(d, vals, "h")
    for clause, m, detail in led:
        v1.append(violation(clause, key, "tiny instance %s: %s" % (spec, detail), rp))
    return v1, v2, round(obj, 6)


def job(chunk):
    pipeline.init()
    out = {"C01": [], "C02": [], "n": 0, "solved": 0, "outs": set()}
    for spec in chunk:
        v1, v2, obj = check_instance(spec)
        out["n"] += 1
        if obj is not None:
            out["solved"] += 1
            out["outs"].add(obj)
        if len(out["C01"]) < 5:
            out["C01"].extend(v1[:2])
        if len(out["C02"]) < 5:
            out["C02"].extend(v2[:2])
    out["outs"] = len(out["outs"])
    return out


def explore(tier):
    specs = list(instances(tier))
    chunks = [specs[i:i + 12] for i in range(0, len(specs), 12)]
    res = common.pmap(job, chunks, init_fn=pipeline.init, chunksize=1)
    return {"n": sum(r["n"] for r in res), "solved": sum(r["solved"] for r in res), "distinct_optima": sum(r["outs"] for r in res),
            "C01": [v for r in res for v in r["C01"]], "C02": [v for r in res for v in r["C02"]],
            "bound": "full product: N in %s; stock, crops (5 patterns), meat (4 patterns), SCP on/off, sugar on/off (thorough), constant foods, seaweed on/off, storage regime, feed/biofuel charge, retail waste" % (
                "{3}" if tier == "quick" else "{3,5}")}


def replay(pid, spec):
    pipeline.init()
    v1, v2, _ = check_instance(spec)
    return v1 if pid == "C01" else v2
