"""./check <ID> [--tier quick|thorough] [--replay FILE]

Exit 0: property held on everything explored (known findings are printed, not alarmed).
Exit 1: at least one violation not listed in known_findings.json (VIOLATION line printed).
Exit 2: harness error (never a verdict about the code).
"""
import argparse
import importlib
import json
import os
import subprocess
import sys
import time
import traceback

from . import common

FINDINGS_FILE = os.path.join(common.VERIF, "known_findings.json")
MAX_REPLAYS = 10


def load_findings(pid):
    if not os.path.exists(FINDINGS_FILE):
        return []
    with open(FINDINGS_FILE) as f:
        data = json.load(f)
    return [e for e in data.get("findings", []) if e.get("property") == pid and e.get("status") == "open"]


def entry_matches(entry, v):
    cl = entry.get("clause")
    if cl is not None:
        if isinstance(cl, list):
            if v["clause"] not in cl:
                return False
        elif v["clause"] != cl:
            return False
    for k, want in (entry.get("match") or {}).items():
        have = v["key"].get(k)
        if isinstance(want, list):
            if have not in want and have != want:
                return False
        elif have != want:
            return False
    return True


def main(argv=None):
    ap = argparse.ArgumentParser()
    ap.add_argument("pid")
    ap.add_argument("--tier", default=os.environ.get("VERIF_TIER", "quick"), choices=["quick", "thorough"])
    ap.add_argument("--replay")
    ap.add_argument("--no-confirm", action="store_true")
    args = ap.parse_args(argv)
    if args.replay:
        args.replay = os.path.abspath(args.replay)      # before any harness changes the working directory
    pid = args.pid.upper()
    seed = int(os.environ.get("VERIF_SEED", "0") or 0)
    os.environ.setdefault("PYTHONHASHSEED", "0")
    t0 = time.time()
    try:
        mod = importlib.import_module("mc.props." + pid.lower())
    except ModuleNotFoundError:
        print("harness error: no check for", pid)
        return 2

    if args.replay:
        with open(args.replay) as f:
            rp = json.load(f)
        try:
            vs = mod.replay(rp["replay"])
        except Exception:
            traceback.print_exc()
            return 2
        want = rp.get("clause")
        if os.environ.get("VERIF_REPLAY_STRICT"):
            # regression corpus: only the clause the file was recorded for, and never a listed open finding
            open_f = load_findings(pid)
            hit = [v for v in vs if v["clause"] == want and not any(entry_matches(e, v) for e in open_f)]
        else:
            hit = [v for v in vs if v["clause"] == want] or vs
        for v in hit[:5]:
            print("REPLAY-VIOLATION property=%s clause=%s %s" % (pid, v["clause"], v["detail"]))
        if hit:
            print("VIOLATION property=%s replay=%s" % (pid, os.path.abspath(args.replay)))
            return 1
        print("replay: no violation reproduced")
        return 0

    try:
        res = mod.run(args.tier, seed)
    except Exception:
        traceback.print_exc()
        print("harness error in", pid)
        return 2

    findings = load_findings(pid)
    matched = {}
    unmatched = []
    for v in res["violations"]:
        for i, e in enumerate(findings):
            if entry_matches(e, v):
                matched.setdefault(i, []).append(v)
                break
        else:
            unmatched.append(v)

    for i, vs in sorted(matched.items()):
        e = findings[i]
        print("KNOWN-FINDING: property=%s %s (%d explored executions match)" % (pid, e["what"], len(vs)))

    rdir = os.path.join(os.environ.get("VERIF_REPLAY_DIR") or os.path.join(common.VERIF, "replays"), pid)
    status = 0
    written = []
    seen_clause = {}
    for v in unmatched:
        seen_clause[v["clause"]] = seen_clause.get(v["clause"], 0) + 1
        if seen_clause[v["clause"]] > 3 or len(written) >= MAX_REPLAYS:
            continue
        path = os.path.join(rdir, "%s_%s.json" % (v["clause"], common.digest([v["key"], v["clause"]])))
        common.jdump({"property": pid, "clause": v["clause"], "key": v["key"], "detail": v["detail"],
                      "replay": v["replay"], "tier": args.tier, "seed": seed,
                      "how": "./check %s --replay %s" % (pid, path)}, path)
        written.append((v, path))
    if unmatched:
        status = 1
        # determinism: the first violation must reproduce in a fresh process
        if not args.no_confirm and hasattr(mod, "replay") and written:
            v, path = written[0]
            p = subprocess.run([sys.executable, "-m", "mc.cli", pid, "--replay", path],
                               cwd=common.VERIF, capture_output=True, text=True,
                               env={k: val for k, val in os.environ.items() if k != "VERIF_SCRATCH_BASE"})
            if p.returncode != 1:
                print(p.stdout[-2000:])
                print(p.stderr[-2000:])
                print("harness error: violation did not reproduce in a fresh process:", path)
                status = 2
        for v, path in written:
            print("  clause=%s key=%s :: %s" % (v["clause"], json.dumps(v["key"], default=str), v["detail"][:300]))
            if status == 1:
                print("VIOLATION property=%s replay=%s" % (pid, path))
        print("%d violating executions not covered by known findings (%s)" % (
            len(unmatched), ", ".join("%s x%d" % kv for kv in sorted(seen_clause.items()))))

    cov = dict(res["coverage"])
    cov.setdefault("exhaustive", not cov.get("caps_hit"))

    # regression corpus: the replay files of the defects that were repaired in the repository (regressions/<id>/, collected by
    # tools_regress.py with each fix reverted) are replayed without the explorer, one fresh process each
    reg_dir = os.path.join(common.VERIF, "regressions", pid)
    reg = sorted(os.path.join(reg_dir, f) for f in os.listdir(reg_dir) if f.endswith(".json")) if os.path.isdir(reg_dir) else []
    if reg:
        from concurrent.futures import ThreadPoolExecutor
        env = {k: val for k, val in os.environ.items() if k != "VERIF_SCRATCH_BASE"}
        env["VERIF_REPLAY_STRICT"] = "1"

        def one(path):
            return path, subprocess.run([sys.executable, "-m", "mc.cli", pid, "--replay", path], cwd=common.VERIF, capture_output=True, text=True, env=env)
        with ThreadPoolExecutor(8) as ex:
            outs = list(ex.map(one, reg))
        bad = 0
        for path, p in outs:
            if p.returncode == 1:
                bad += 1
                print("  regression %s :: %s" % (os.path.basename(path), "; ".join(l for l in p.stdout.splitlines() if l.startswith("REPLAY-VIOLATION"))[:300]))
                print("VIOLATION property=%s replay=%s" % (pid, path))
                status = max(status, 1)
            elif p.returncode != 0:
                print(p.stdout[-1000:], p.stderr[-1000:])
                print("harness error: regression replay failed to run:", path)
                status = 2
        cov["regression_replays"] = len(reg)
        cov["regression_replays_failing"] = bad
    ev = {
        "property_id": pid,
        "tier": args.tier,
        "seed": seed,
        "level": "model_checking",
        "coverage": cov,
        "assumptions": res.get("assumptions", []),
        "wall_s": round(time.time() - t0, 2),
        "violations": len(unmatched) + cov.get("regression_replays_failing", 0),
        "known_findings_matched": sum(len(x) for x in matched.values()),
    }
    for k in ("states", "transitions", "traces_validated_against_impl", "samples"):
        if k not in cov:
            print("harness error: evidence lacks", k)
            return 2
    common.jdump(ev, os.path.join(os.environ.get("VERIF_EVIDENCE_DIR") or os.path.join(common.VERIF, "evidence"), pid + ".json"))
    print("%s %s seed=%d: executions=%s states=%s transitions=%s distinct_outcomes=%s wall=%.1fs -> %s" % (
        pid, args.tier, seed, cov.get("executions"), cov.get("states"), cov.get("transitions"),
        cov.get("distinct_outcomes"), time.time() - t0,
        "OK" if status == 0 else ("VIOLATION" if status == 1 else "HARNESS-ERROR")))
    return status


if __name__ == "__main__":
    sys.exit(main())
