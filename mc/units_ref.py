"""Independent reference for the unit systems of food quantities (used by C10 and C11).
Written from the meaning of the unit names, not from unit_conversions.py."""

KCAL_BASES = ["billion kcals", "billion people fed", "percent people fed", "million dry caloric tons", "kcals per person per day"]
NUTR_BASES = ["thousand tons", "million tons", "billion people fed", "percent people fed", "effective kcals per person per day",
              "grams per person per day"]
FORMS = ["", " per month", " each month"]
DAYS = 30


def kcal_factor(base, pop, kd):
    """multiplier taking billion kcals to `base`"""
    return {
        "billion kcals": 1.0,
        "billion people fed": 1.0 / (kd * DAYS),                       # 1e9 kcal / (kcal per person-month) = 1e9 people
        "percent people fed": 100.0 * 1e9 / (kd * DAYS * pop),
        "million dry caloric tons": 1e9 / 4e6 / 1e6,                   # 4e6 kcal per dry caloric ton
        "kcals per person per day": 1e9 / (DAYS * pop),
    }[base]


def nutr_factor(base, pop, kd, nd):
    """multiplier taking thousand tons of fat/protein (daily need nd grams) to `base`"""
    people = 1e9 / (nd * DAYS)      # thousand tons = 1e9 g; people whose monthly need that covers
    return {
        "thousand tons": 1.0,
        "million tons": 1e-3,
        "billion people fed": people / 1e9,
        "percent people fed": 100.0 * people / pop,
        "effective kcals per person per day": people / pop * kd,
        "grams per person per day": 1e9 / (DAYS * pop),
    }[base]


def split(label):
    for f in (" each month", " per month"):
        if label.endswith(f):
            return label[:-len(f)], f
    return label, ""


def factors(from_bases, to_bases, pop, kd, fd, pd):
    return (kcal_factor(to_bases[0], pop, kd) / kcal_factor(from_bases[0], pop, kd),
            nutr_factor(to_bases[1], pop, kd, fd) / nutr_factor(from_bases[1], pop, kd, fd),
            nutr_factor(to_bases[2], pop, kd, pd) / nutr_factor(from_bases[2], pop, kd, pd))
