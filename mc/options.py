"""The option space shared by the configuration-driven engines (DESIGN section 2)."""
import copy
import csv

from . import common

NW = dict(scale="country", seasonality="country", grasses="country_nuclear_winter",
          crop_disruption="country_nuclear_winter", fish="nuclear_winter", nutrition="catastrophe",
          intake_constraints="enabled", stored_food="baseline", cull="do_eat_culled", fat="not_required",
          protein="not_required", NMONTHS=120)
BASECLIM = dict(NW, grasses="baseline", crop_disruption="zero", fish="baseline", nutrition="baseline")

PRESETS = {
    # the six distinct option sets of scenarios/*.yaml
    "yaml_net_baseline": dict(BASECLIM, scenario="no_resilient_foods", waste="baseline_in_country",
                              ratio_stocks_untouched="baseline", shutoff="continued", meat_strategy="baseline_breeding"),
    "yaml_gross_baseline": dict(BASECLIM, scenario="no_resilient_foods", waste="zero", ratio_stocks_untouched="baseline",
                                shutoff="immediate", cull="dont_eat_culled", meat_strategy="baseline_breeding"),
    "yaml_nw": dict(NW, scenario="no_resilient_foods", waste="baseline_in_country", ratio_stocks_untouched="zero",
                    shutoff="continued", meat_strategy="reduce_breeding"),
    "yaml_nw_reduced": dict(NW, scenario="no_resilient_foods", waste="doubled_prices_in_country",
                            ratio_stocks_untouched="zero", shutoff="long_delayed_shutoff", meat_strategy="reduce_breeding"),
    "yaml_nw_resilient": dict(NW, scenario="all_resilient_foods", waste="doubled_prices_in_country",
                              ratio_stocks_untouched="zero", shutoff="long_delayed_shutoff", meat_strategy="reduce_breeding"),
    "yaml_nw_resilient_more_area": dict(NW, scenario="all_resilient_foods_and_more_area", waste="doubled_prices_in_country",
                                        ratio_stocks_untouched="zero", shutoff="long_delayed_shutoff",
                                        meat_strategy="reduce_breeding"),
    # the four manuscript scenarios of plot_manuscript_figures.py (current key names)
    "ms_worst": dict(NW, scenario="no_resilient_foods", waste="baseline_in_country",
                     ratio_stocks_untouched="no_stored_between_years", shutoff="continued_after_10_percent_fed",
                     meat_strategy="baseline_breeding"),
    "ms_simple": dict(NW, scenario="no_resilient_foods", waste="tripled_prices_in_country", ratio_stocks_untouched="zero",
                      shutoff="long_delayed_shutoff_after_10_percent_fed", meat_strategy="baseline_breeding"),
    "ms_example": dict(NW, scenario="no_resilient_foods", waste="tripled_prices_in_country", ratio_stocks_untouched="zero",
                       shutoff="long_delayed_shutoff", meat_strategy="feed_only_ruminants"),
    "ms_example_resilient": dict(NW, scenario="all_resilient_foods", waste="tripled_prices_in_country",
                                 ratio_stocks_untouched="zero", shutoff="long_delayed_shutoff",
                                 meat_strategy="feed_only_ruminants"),
}
GLOBAL_NW = dict(scale="global", seasonality="nuclear_winter_globally", grasses="global_nuclear_winter",
                 crop_disruption="global_nuclear_winter", fish="nuclear_winter", nutrition="catastrophe",
                 intake_constraints="enabled", stored_food="baseline", cull="do_eat_culled", fat="not_required",
                 protein="not_required", NMONTHS=120)
GLOBAL_PRESETS = {
    "g_baseline": dict(GLOBAL_NW, seasonality="baseline_globally", grasses="baseline", crop_disruption="zero", fish="baseline",
                       nutrition="baseline", scenario="no_resilient_foods", waste="baseline_globally",
                       ratio_stocks_untouched="baseline", shutoff="continued", meat_strategy="baseline_breeding"),
    "g_worst": dict(GLOBAL_NW, scenario="no_resilient_foods", waste="baseline_globally",
                    ratio_stocks_untouched="no_stored_between_years", shutoff="continued_after_10_percent_fed",
                    meat_strategy="baseline_breeding"),
    "g_simple": dict(GLOBAL_NW, scenario="no_resilient_foods", waste="tripled_prices_globally", ratio_stocks_untouched="zero",
                     shutoff="long_delayed_shutoff_after_10_percent_fed", meat_strategy="baseline_breeding"),
    "g_example_resilient": dict(GLOBAL_NW, scenario="all_resilient_foods", waste="tripled_prices_globally",
                                ratio_stocks_untouched="zero", shutoff="long_delayed_shutoff",
                                meat_strategy="feed_only_ruminants"),
}

MENUS = dict(
    scenario=["no_resilient_foods", "all_resilient_foods", "all_resilient_foods_and_more_area", "seaweed", "methane_scp",
              "cellulosic_sugar", "industrial_foods", "relocated_crops", "greenhouse"],
    ratio_stocks_untouched=["zero", "baseline", "no_stored_between_years", "baseline_no_stored_between_years"],
    shutoff=["immediate", "one_month_delayed_shutoff", "short_delayed_shutoff", "long_delayed_shutoff", "continued",
             "continued_after_10_percent_fed", "long_delayed_shutoff_after_10_percent_fed"],
    waste=["zero", "baseline_in_country", "doubled_prices_in_country", "tripled_prices_in_country"],
    nutrition=["baseline", "catastrophe"],
    intake_constraints=["enabled", "disabled_for_humans"],
    meat_strategy=["reduce_breeding", "baseline_breeding", "feed_only_ruminants"],
    cull=["do_eat_culled", "dont_eat_culled"],
    stored_food=["zero", "baseline"],
    crop_disruption=["zero", "country_nuclear_winter", "all_crops_die_instantly"],
    grasses=["baseline", "country_nuclear_winter", "all_crops_die_instantly"],
    fish=["zero", "baseline", "nuclear_winter"],
    seasonality=["country", "no_seasonality"],
    NMONTHS=[48, 60, 72, 84, 96, 108, 120],
)
GLOBAL_MENUS = dict(MENUS,
                    waste=["zero", "baseline_globally", "doubled_prices_globally", "tripled_prices_globally"],
                    crop_disruption=["zero", "global_nuclear_winter", "all_crops_die_instantly"],
                    grasses=["baseline", "global_nuclear_winter"],
                    seasonality=["baseline_globally", "nuclear_winter_globally", "no_seasonality"])
OVERRIDES = dict(
    MINIMUM_PERCENT_FED_BEFORE_NONHUMAN_CONSUMPTION_ALLOWED=[0, 10, 50, 100],
    RATIO_STOCKS_UNTOUCHED=[0, 0.5, 1],
    CROP_PRODUCTION_MULTIPLIER=[0.5, 2],
    GRASSES_PRODUCTION_MULTIPLIER=[0.5, 2],
    kg_meat_per_large_animal=[150.0],
    chicken_head=[1000000],
    meat_cattle_head=[20000000],
)
SUPPLY_FAMILIES = ("scenario", "ratio_stocks_untouched", "shutoff", "waste", "stored_food", "crop_disruption", "grasses",
                   "fish", "seasonality", "nutrition")
SUPPLY_OVERRIDES = ("RATIO_STOCKS_UNTOUCHED", "CROP_PRODUCTION_MULTIPLIER", "GRASSES_PRODUCTION_MULTIPLIER")


def preset(name):
    p = PRESETS.get(name) or GLOBAL_PRESETS[name]
    p = copy.deepcopy(p)
    p["_preset"] = name
    return p


def clean(opts):
    return {k: v for k, v in opts.items() if not k.startswith("_")}


def is_global(opts):
    return opts["scale"] == "global"


def single_deviations(opts, families=None, overrides=None, horizons=True):
    """Every option dictionary differing from `opts` in exactly one family value / one override."""
    menus = GLOBAL_MENUS if is_global(opts) else MENUS
    out = []
    for fam, vals in menus.items():
        if families is not None and fam not in families and not (fam == "NMONTHS" and horizons):
            continue
        if fam == "NMONTHS" and not horizons:
            continue
        for v in vals:
            if opts.get(fam) != v:
                o = copy.deepcopy(opts)
                o[fam] = v
                out.append(("%s=%s" % (fam, v), o))
    for key, vals in OVERRIDES.items():
        if overrides is not None and key not in overrides:
            continue
        for v in vals:
            o = copy.deepcopy(opts)
            o[key] = v
            out.append(("%s=%s" % (key, v), o))
    return out


def pair_deviations(opts, families=None):
    singles = single_deviations(opts, families=families, overrides=(), horizons=False)
    out = []
    for i, (t1, o1) in enumerate(singles):
        f1 = t1.split("=")[0]
        for t2, o2 in singles[i + 1:]:
            f2 = t2.split("=")[0]
            if f1 == f2:
                continue
            o = copy.deepcopy(o1)
            o[f2] = o2[f2]
            out.append((t1 + "," + t2, o))
    return out


_ISOS = None


def countries():
    global _ISOS
    if _ISOS is None:
        with open(common.REPO + "/data/no_food_trade/computer_readable_combined.csv") as f:
            _ISOS = [r["iso3"] for r in csv.DictReader(f)]
    return list(_ISOS)
