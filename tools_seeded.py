#!/usr/bin/env python3
"""Evaluate seeded (deliberately property-breaking) changes against the checks without touching /repo:
   tools_seeded.py eval <seeded-id> [PID ...]   apply seeded/<id>/patch.diff in a scratch worktree of /repo's HEAD and run the
                                               quick check of the property it targets (or the listed ones) with VERIF_REPO pointing there
   tools_seeded.py table                        print the detection table from seeded/*/meta.json
The scratch worktree and the evidence written during evaluation live under a temporary directory and are removed afterwards."""
import json
import os
import shutil
import subprocess
import sys
import tempfile
import time

HERE = os.path.dirname(os.path.abspath(__file__))


def evaluate(sid, pids=None, tier="quick"):
    d = os.path.join(HERE, "seeded", sid)
    meta = json.load(open(os.path.join(d, "meta.json")))
    pids = pids or [meta["property"]]
    tmp = tempfile.mkdtemp(prefix="seeded_eval_")
    wt = os.path.join(tmp, "wt")
    out = {}
    try:
        subprocess.run(["git", "-C", "/repo", "worktree", "add", "-q", "--detach", wt, "HEAD"], check=True)
        subprocess.run(["git", "-C", wt, "apply", os.path.join(d, "patch.diff")], check=True)
        env = dict(os.environ, VERIF_REPO=wt, VERIF_EVIDENCE_DIR=os.path.join(tmp, "evidence"))
        for pid in pids:
            t0 = time.time()
            p = subprocess.run([os.path.join(HERE, "check"), pid, "--tier", tier], cwd=HERE, env=env, capture_output=True, text=True)
            lines = [l for l in p.stdout.splitlines() if l.startswith(("VIOLATION", "KNOWN-FINDING", "  clause=")) or " -> " in l]
            out[pid] = {"exit": p.returncode, "wall_s": round(time.time() - t0, 1), "lines": lines[:6], "clauses": sorted({l.split("clause=")[1].split(" ")[0] for l in p.stdout.splitlines() if l.startswith("  clause=")})}
            print(sid, pid, "exit", p.returncode, out[pid]["clauses"], "%.0fs" % (time.time() - t0))
            if p.returncode not in (0, 1):
                print(p.stdout[-1500:], p.stderr[-1500:])
    finally:
        subprocess.run(["git", "-C", "/repo", "worktree", "remove", "--force", wt])
        shutil.rmtree(tmp, ignore_errors=True)
    return out


SUITE = ["/venv/bin/python", "-m", "pytest", "-q", "-p", "no:cacheprovider", "--timeout=900", "--deselect", "tests/test_argentina_parameters.py"]


def confirm(sid, wt):
    """independent confirmation in a FRESH worktree at `wt` (same path the change was written in, in case the demo names it):
    demo passes on the pristine tree, fails with the patch; the repository suite passes with the patch; then the target check."""
    d = os.path.join(HERE, "seeded", sid)
    meta_path = os.path.join(d, "meta.json")
    meta = json.load(open(meta_path))
    subprocess.run(["git", "-C", "/repo", "worktree", "remove", "--force", wt], capture_output=True)
    shutil.rmtree(wt, ignore_errors=True)
    subprocess.run(["git", "-C", "/repo", "worktree", "prune"])
    subprocess.run(["git", "-C", "/repo", "worktree", "add", "-q", "--detach", wt, "HEAD"], check=True)
    ran = {}
    try:
        os.makedirs(os.path.join(wt, "MUTATION"), exist_ok=True)
        shutil.copy(os.path.join(d, "demo.py"), os.path.join(wt, "MUTATION", "demo.py"))
        env = dict(os.environ, PYTHONPATH=wt, MPLBACKEND="Agg")
        demo = ["/venv/bin/python", "MUTATION/demo.py"]
        p0 = subprocess.run(demo, cwd=wt, env=env, capture_output=True, text=True)
        ran["demo_on_pristine_exit"] = p0.returncode
        subprocess.run(["git", "-C", wt, "apply", os.path.join(d, "patch.diff")], check=True)
        p1 = subprocess.run(demo, cwd=wt, env=env, capture_output=True, text=True)
        ran["demo_with_change_exit"] = p1.returncode
        ran["demo_with_change_tail"] = (p1.stdout + p1.stderr)[-300:]
        subprocess.run(["git", "-C", wt, "checkout", "--", "results"], capture_output=True)
        t0 = time.time()
        ps = subprocess.run(SUITE, cwd=wt, env=dict(os.environ, MPLBACKEND="Agg"), capture_output=True, text=True)
        ran["suite_with_change"] = (ps.stdout.strip().splitlines() or ["?"])[-1]
        ran["suite_exit"] = ps.returncode
        ran["suite_wall_s"] = round(time.time() - t0)
        subprocess.run(["git", "-C", wt, "checkout", "--", "results"], capture_output=True)
        subprocess.run(["git", "-C", wt, "clean", "-fdq", "results"], capture_output=True)
        envc = dict(os.environ, VERIF_REPO=wt, VERIF_EVIDENCE_DIR=os.path.join(wt, "MUTATION", "evidence"))
        pc = subprocess.run([os.path.join(HERE, "check"), meta["property"], "--tier", "quick"], cwd=HERE, env=envc, capture_output=True, text=True)
        ran["check_exit"] = pc.returncode
        ran["check_clauses"] = sorted({l.split("clause=")[1].split(" ")[0] for l in pc.stdout.splitlines() if l.startswith("  clause=")})
        ran["check_last_line"] = (pc.stdout.strip().splitlines() or ["?"])[-1]
    finally:
        subprocess.run(["git", "-C", "/repo", "worktree", "remove", "--force", wt], capture_output=True)
        shutil.rmtree(wt, ignore_errors=True)
        subprocess.run(["git", "-C", "/repo", "worktree", "prune"])
    meta["ran"] = ran
    meta["confirmed"] = bool(ran.get("demo_on_pristine_exit") == 0 and ran.get("demo_with_change_exit") not in (0, None) and ran.get("suite_exit") == 0)
    meta.setdefault("detected_by", {})[meta["property"] + ":quick"] = ran.get("check_exit") == 1
    json.dump(meta, open(meta_path, "w"), indent=1)
    print(sid, json.dumps(ran)[:600])


def table(md=False):
    rows = []
    for sid in sorted(os.listdir(os.path.join(HERE, "seeded"))):
        m = os.path.join(HERE, "seeded", sid, "meta.json")
        if os.path.exists(m):
            meta = json.load(open(m))
            ran = meta.get("ran", {})
            rows.append((sid, meta["property"], meta.get("summary", ""), meta.get("needs_to_manifest", ""), ran.get("suite_with_change", "")[:10],
                         "yes" if meta.get("confirmed") else "NO", ", ".join(ran.get("check_clauses", []) or ran.get("check_after_strengthening", {}).get("clauses", [])),
                         meta.get("detected_by", {}), meta.get("strengthening", "")))
    if md:
        print("| seeded change | breaks | what it is | needs, to manifest | repo suite with it | caught by quick check (clauses) | note |")
        print("|---|---|---|---|---|---|---|")
        for r in rows:
            caught = "; ".join("%s %s" % (k, "yes" if v else "**no**") for k, v in sorted(r[7].items()))
            print("| %s | %s | %s | %s | %s | %s (%s) | %s |" % (r[0], r[1], r[2], r[3], r[4], caught, r[6], r[8][:160]))
    else:
        for r in rows:
            print("%-8s %-4s conf=%-3s %-50s %s" % (r[0], r[1], r[5], r[7], r[6][:80]))


if __name__ == "__main__":
    if sys.argv[1] == "eval":
        res = evaluate(sys.argv[2], sys.argv[3:] or None)
        print(json.dumps(res, indent=1))
    elif sys.argv[1] == "confirm":
        confirm(sys.argv[2], sys.argv[3])
    elif sys.argv[1] == "recheck":
        # final detection run: every seeded change against the CURRENT quick check of its target property
        sids = sys.argv[2:] or sorted(os.listdir(os.path.join(HERE, "seeded")))
        for sid in sids:
            mp = os.path.join(HERE, "seeded", sid, "meta.json")
            meta = json.load(open(mp))
            res = evaluate(sid)
            meta = json.load(open(mp))
            r = res[meta["property"]]
            meta["recheck"] = {"exit": r["exit"], "clauses": r["clauses"], "wall_s": r["wall_s"], "verif_commit": subprocess.run(["git", "-C", HERE, "rev-parse", "--short", "HEAD"], capture_output=True, text=True).stdout.strip()}
            json.dump(meta, open(mp, "w"), indent=1)
    elif sys.argv[1] == "matrix":
        # every quick check against every (listed) seeded change: which other properties does a change break, and does any
        # check alarm where the property is intact?  Stored in seeded/<id>/meta.json under "cross".
        ALL = ["C%02d" % i for i in range(1, 19)]
        sids = sys.argv[2:] or sorted(os.listdir(os.path.join(HERE, "seeded")))
        for sid in sids:
            mp = os.path.join(HERE, "seeded", sid, "meta.json")
            meta = json.load(open(mp))
            if "cross" in meta and len(meta["cross"]) == len(ALL):
                continue
            res = evaluate(sid, ALL)
            meta = json.load(open(mp))
            meta["cross"] = {p: {"exit": r["exit"], "clauses": r["clauses"], "wall_s": r["wall_s"]} for p, r in res.items()}
            json.dump(meta, open(mp, "w"), indent=1)
    elif sys.argv[1] == "matrix-table":
        ALL = ["C%02d" % i for i in range(1, 19)]
        print("| change | " + " | ".join(p[1:] for p in ALL) + " |")
        print("|---|" + "---|" * len(ALL))
        for sid in sorted(os.listdir(os.path.join(HERE, "seeded"))):
            meta = json.load(open(os.path.join(HERE, "seeded", sid, "meta.json")))
            c = meta.get("cross")
            if c:
                print("| %s | " % sid + " | ".join({0: ".", 1: "**X**"}.get(c.get(p, {}).get("exit"), "?") for p in ALL) + " |")
    elif sys.argv[1] == "table":
        table(md="--md" in sys.argv)
