#!/usr/bin/env python3
"""Regenerates MANIFEST.json from the table below (keeps it valid at all times)."""
import json
import os

HERE = os.path.dirname(os.path.abspath(__file__))
TRUST = ("Python/numpy semantics; the harness's own oracle code in /verif/mc; the value menus and bounds "
         "stated in the evidence file (nothing is claimed outside them)")

CHECKS = {
    "C12": dict(engine="lp-metamorphic", design_ref="3/C12",
        technique="every single perturbation from a fixed menu applied to every captured LP instance (first and last people-maximising round of each enumerated run), each solved by the real Optimizer.optimize_to_humans; metamorphic laws as oracle; the same menu on the full product of tiny instances built on the real Optimizer (industrial foods below and far above the human intake cap, biofuel charge below and above feed charge); each of the two meat inputs (total, running total from month m on / last entry) also raised alone; boundary values of one food's waste (w/2, exactly 0) and the chain w -> w/2 -> 0",
        text="For each captured instance: every supply kind x month bucket +5 % of monthly need, each retail waste -5 points, feed/biofuel charge +1 % per bucket, common scale x0.5/x3: percent fed must not decrease / not increase / stay equal (1e-5 relative). Exact mathematical consequences of a correct formulation, checked on every enumerated instance rather than one sweep.",
        note=TRUST + "; an infeasible perturbed programme has no value and is counted, not judged"),
    "C14": dict(engine="histories", design_ref="3/C14",
        technique="sequences(d): every ordered sequence (d<=2 quick, d<=3 thorough, repeats allowed) over a pool of 8 runs differing in every process-global the code touches (two of them the same country with numeric overrides), each history in one fresh process; every subset (size <=2 quick, all thorough) of 5 countries in ONE multi-country call sharing one option dictionary; differential oracle: bit-for-bit equality with the run alone / the single-country call; deviation histories: the base run of a country after the same country was run with each single-family option deviation (52), one fresh process each (incl. every column family of the country table halved through the custom-parameter mechanism); the pool includes a run on the rare abandoned-round-2 path and the same country under a feed-charging variant; histories in which one runner object serves every run (every ordered pair quick, pairs and triples thorough), digest incl. returned aggregate and reported countries",
        text="Result digest (headline, every monthly series, herd dictionaries) of each run at the end of every history equals the digest of the same run alone in a fresh process, also repeated and under other PYTHONHASHSEED values; caller's option dictionaries unmodified; process-global settings fingerprinted after each run.",
        note=TRUST + "; results are bit-for-bit reproducible on the unchanged tree (measured)"),
    "C15": dict(engine="aggregate", design_ref="3/C15",
        technique="full product of selection patterns (absent / named / '!'-named per country over a 4-country universe: 81 lists) x 5 fraction tables (two with countries whose run reports failure) through the real run_model_no_trade with the per-country step replaced by a stand-in; conformance of the stand-in on real unstubbed runs; every stubbed selection is run twice with the same list object; lists naming a country more than once; every selection pattern again under two population overrides (weights = populations handed to the per-country computation)",
        text="Aggregate == sum(pop x min(1,f)) / sum(pop) over exactly the selected rows, within [0,1]; exclusion lists run all other rows, inclusion and mixed lists only the named ones; every selected country once in the results.",
        note=TRUST + "; the stand-in replaces only run_optimizer_for_country"),
    "C17": dict(engine="imports", design_ref="3/C17",
        technique="all 21 import scripts re-run in a scratch copy of data/ with processed_data/ emptied first (byte comparison with shipped files); every cell of the combined table against the domain rules; full product on the averaging helper",
        text="Regenerated processed tables and the combined table are byte-identical to the shipped ones; 164 x 211 cells satisfy completeness/seasonality/fraction/reduction/sign rules; weighted_average_percentages over every vector of length <= 3/4 from 9 values x every quarter-grid weight vector returns the renormalised mean of the valid inputs or the sentinel iff none carries weight.",
        note=TRUST + "; raw data files are the given input"),
    "C01": dict(engine="pipeline", design_ref="3/C01",
        technique="bounded exhaustive enumeration of configurations (presets x all countries; every single option deviation; thorough: every pair) through the real three-round run, plus the full product of tiny 3-month (thorough: 3- and 5-month) instances on the real Optimizer; ledger audit of every solved allocation, written from the supplies, on every (round, month); the deviation layer runs as one chain per (country, preset) in one process (default run, then every single deviation), so histories of one country across scenarios are explored too, with prefix replay; quick tier: deviation layer on one country per data-shape class (8 countries) + fixed representatives of rare controller paths",
        text="Every linear programme the model builds inside the enumerated configuration space is audited after its last solve: non-negativity, stored food / crops / meat cumulative balances, monthly SCP and sugar caps, the seaweed growth-and-harvest recurrence with density and area bounds, feed/biofuel totals vs the charged series or ceilings, feed never rising in the feed round. The audit is derived from what physically exists each month, not from the model's own constraint objects, so a missing or too-weak balance shows.",
        note=TRUST + "; tolerances 1e-5 relative + 1e-6 absolute on cumulative clauses (CBC primal tolerance 1e-7 per value), 1e-4 absolute on the seaweed recurrence"),
    "C02": dict(engine="pipeline", design_ref="3/C02",
        technique="same enumeration plus the tiny-instance product (mc/tiny.py); for every LP instance the model's own programme is read out of the PuLP object as matrices and solved with HiGHS, and compared (a) with an independently written formulation built from the captured inputs (1e-5 relative: wrong coefficient, missing constraint, wrong pin) and (b) with the value CBC reported (1e-3 relative: CBC stops up to 5.7e-4 short of its own optimum on the unchanged tree); call histories on one Optimizer object (captured feed-round instance with pins as captured / x0.95 / x0.9 / as captured, people round twice) compared with fresh objects",
        text="For each enumerated (country, configuration, round) the reported optimum is compared with the optimum of an independently written formulation (cumulative what-exists-so-far constraints, documented intake caps, charge or ceilings, pinned bands, monotone feed) solved by a different solver, and with the optimum of the programme the model itself built. The deciding step is the enumeration of instances; HiGHS is the oracle for one instance.",
        note=TRUST + "; CBC and HiGHS trusted as LP solvers; an instance HiGHS cannot solve numerically is counted, not judged"),
    "C03": dict(engine="pipeline", design_ref="3/C03",
        technique="same enumeration incl. the threshold override T in {0,10,50,100}; relations between the three dependent optimisations of each run, all controller branches",
        text="For every enumerated run: final < T => essentially no feed/biofuel from human-edible food in any month and final >= no-feed round; no-feed round >= T => final >= T; in every round and month feed and biofuel stay within the independently recomputed demand schedule and are zero after the shut-off month.",
        note=TRUST + "; 0.1 percent-fed-equivalent is the maintainers' own 'essentially zero'; genuine violations by the recorded worst-month-cap mechanism are listed in known_findings.json"),
    "C04": dict(engine="pipeline", design_ref="3/C04",
        technique="same enumeration; per (round, month) comparison of headline, per-food breakdown, captured allocation and the CSV written to disk; the percent-fed series of every food against the breakdown; an alphabet of 8 run titles (dots, commas, replaced characters), one complete run each through the same monitor incl. every round's saved table",
        text="Headline == worst month of the summed per-food series; every series == allocation x unit factor; headline within 0.01 % of the first-stage optimum (tie-break solves never degrade it); saved table == returned numbers; crop split adds up.",
        note=TRUST + "; 1e-6 percentage points absolute allowance on a near-zero optimum (solver primal tolerance)"),
    "C05": dict(engine="pipeline", design_ref="3/C05",
        technique="same enumeration; herd simulation objects captured at the CalculateFeedAndMeat seam and compared month by month with the optimiser inputs of each round; the meat eaten in each solved people-maximising programme judged against the herd simulation itself (month by month without storage, cumulatively with it)",
        text="Meat and milk energy handed to each round's optimiser are recomputed from the herd run of that round (slaughter counts x class yields x waste; milking herd x yield x wastes); final-round feed charge >= feed the final herd run ate; grass used <= grass given; the no-feed round ran its herds on no feed.",
        note=TRUST + "; per-kg energy and default carcass weights are the documented constants of MeatAndDairy"),
    "C16": dict(engine="pipeline", design_ref="3/C16",
        technique="the enumerated grid itself (presets x all countries x single deviations): completion, assertions, banners, finite non-negative headline; the quick plan appends fixed representatives of rare controller paths found by the thorough grid (mc/rare_paths.json); plus every single deviation of the baseline-family presets on 4 (thorough 9) countries and the world, run outside the shared exploration",
        text="Every run of the enumerated grid must complete with all built-in validation passing and no validation banner printed; failures are genuine by construction and are listed explicitly in known_findings.json.",
        note=TRUST),
    "C18": dict(
        engine="helpers+pipeline",
        technique="exhaustive enumeration (full products over small value menus) of the four hand-off helpers on the real code, statement-level invariants as oracle",
        text="Bounded exhaustive: every array of length<=5 over 6 values (fill), every pair of meat series of length<=3/4 over 4 values, every 6-tuple over 5/6 values (bump), every month pattern with <=3/4 of 9 foods non-zero x 6 companion months x 4 thresholds (minimum human needs), each checked against the sentence of the property it implements. Right level because the helpers are pure functions whose defects show on tiny inputs.",
        design_ref="3/C18",
        note=TRUST + "; stand-in round-1 result object exposes exactly the attributes the helper reads"),
    "C06": dict(
        engine="herd", design_ref="3/C06",
        technique="explicit-state exploration of the real monthly herd loop: product of constant feed/grass levels and deviation-bounded (k<=1 quick, k<=2 thorough) per-month environment answers; ledger invariant on every (species, month) state; quick tier: every country's herd table (12 in depth, all others on a 12-month menu)",
        text="Bounded exhaustive over country x 3 breeding strategies x feeding-order mode x monthly feed/grass answers (5x5 constant series; every <=k-month departure from all-ample and from all-zero over 14 months with a 3x3 menu). Every (species, month) state is checked against the head-count ledger, non-negativity, milk->meat transfer identity, labour-hour capacity, availability and target floor. Right level: the defects live in the interaction of flows over months, which only running the loop on many environment histories exposes.",
        note=TRUST + "; list alignment of the returned herd lists (stated in the evidence assumptions)"),
    "C07": dict(
        engine="herd", design_ref="3/C07",
        technique="exhaustive product on feed_the_species + the herd-engine executions with a reference feeder run in lock-step on every (species, month); the same whole-number supplies in three numeric representations (float64, Python int list, int64 array) compared execution by execution",
        text="Full product of requirement x grass x feed x ruminant x herd size on the real feed_the_species, and every herd-engine execution compared month by month with a boring reference feeder (grass first for ruminants, then feed, in priority order): feed/grass used, fed and starving counts.",
        note=TRUST + "; per-head energy requirement and digestion type read from the species objects"),
    "C08": dict(
        engine="supplies", design_ref="3/C08",
        technique="exhaustive enumeration of country x single supply-option deviation x horizon through the real first-round parameter computation, plus full products of generated constants through each supply class; month-by-month comparison with a reference model written from the documentation; homogeneity metamorphic check; option-level differential through the real dispatcher: series(production multiplier k) == k x series(without)",
        text="Every series handed to the optimiser (outdoor/greenhouse crops, fish, grass, feed and biofuel demand, SCP, cellulosic sugar, seaweed area and growth, initial stock) is recomputed from the documented formula and compared at 1e-9 for every month of every enumerated configuration; length, finiteness, sign and exact scaling are checked too.",
        note=TRUST + "; the constants dictionary produced by the option dispatcher is treated as input (C13 checks the dispatcher)"),
    "C09": dict(
        engine="supplies", design_ref="3/C09",
        technique="same enumeration as C08 restricted to crop/greenhouse families + differential pairs (relocated vs not, expanded vs not) on every enumerated country/horizon/climate; scaled-baseline (x1e-3) no-quantisation check; the greenhouse share handed over in several element types (float64, integer zeros, int8, float32); every sequence (<=2 quick, <=3 thorough) of three greenhouse schedules on one OutdoorCrops object compared with fresh objects, amount grown and schedule unmodified",
        text="Outdoor output == grown x (1 - greenhouse share) x (1 - waste) for every month; greenhouse area schedule (zero until delay+5, monotone, capped); relocation/expansion never lower any month; no rounding/truncation (baseline x 1e-3 scales every month).",
        note=TRUST),
    "C10": dict(
        engine="units", design_ref="3/C10",
        technique="full product over every source unit triple x every target base triple on the real Food.in_units, against an independently derived factor table and the algebraic laws (round trip, path independence, form/shape preservation, anchors); every ordered sequence of 2 (thorough 3) assignments of the nutrition settings from a 2x2x2x2 menu on the one shared conversions object, all 180 base conversions + anchors after every assignment; totals and single months derived from a series converted like the same quantity written down directly; whole-number quantities in six numeric representations (Python int, int list, int64/int32/float32 arrays, float list) to every target and back",
        text="Exhaustive over the 15 x 18 x 18 unit names (form-consistent triples; mixed-form triples of the default bases), scalar and 1-/3-month series, all 180 target base triples, 1 (quick) or 4 (thorough) population/requirement settings: every conversion factor is compared with the factor that follows from the meaning of the unit names; round trips, conversion through an intermediate unit, label form and shape, and the three anchor identities are checked.",
        note=TRUST + "; 30-day month and 4e6 kcal per dry caloric ton are documented constants"),
    "C11": dict(
        engine="food-ops", design_ref="3/C11",
        technique="breadth-first explicit-state exploration of operation sequences on real Food objects (exact canonical state, deduplicated) with a reference value type run in lock-step; full product of constructor argument kinds; full product of predicate operands under the four inclusion-flag settings; seed families that share the calorie label but differ in fat/protein label; constructor labels in all 8 suffix mixtures; numpy-integer and mixed-target operations in the alphabet; every read-only query and ordered pair of label getters on every seed, every comparison on every mixed (single value, series) pair, replace_if_list_with_zeros_is_zero over every triple; four histories of nutrition settings on the shared conversions object with every conversion re-judged after every assignment",
        text="All operation sequences up to depth 1 (all seeds) / 2 (8 seeds) quick, depth 2 complete + depth-3 unary chains thorough, over 22 unary and 5 binary operations with every reached state as partner; after every step labels, label list, form-vs-shape, values, operand immutability and must-refuse are checked against the reference. 16 predicates are compared between single values and one-month series for every operand pair over a 3/4-value menu under all four fat/protein settings.",
        note=TRUST + "; label conventions are those of the Food class docstring; operations the docstrings declare unsupported may refuse"),
    "C13": dict(
        engine="options", design_ref="3/C13",
        technique="explicit-state exploration of the exactly-once flag machine on a real Scenarios object (every reachable flag set x every setter, found by introspection) + deviation-bounded (k<=1) enumeration of the option dispatcher against a reference table + differential check of every head-count override at the herd builder; head-count overrides one at a time, in every ordered pair over a 6-species menu, and observed at every herd-model evaluation of a complete three-round run",
        text="(i) from 2 country presets x 6-16 countries and 2 global presets, every family x every documented value, an unknown value and the key missing: accepted iff documented, caller's dictionary untouched, constants equal the reference table written from README/docstrings, numeric overrides change exactly the named constant; (ii) quick: every ordered pair of the 60 setters from each scale root, thorough: all 2^15 flag sets x 60 setters from both roots (3.9M transitions): accepted iff family unset and scale fits, exactly its flag is set, a rejection changes nothing; (iii) every species head override x countries observed at the table reaching the herd builder.",
        note=TRUST + "; reference table of option values in mc/props/c13.py (EXPECT) transcribed from scenarios/README.md and setter docstrings"),
}

PENDING = {}
NOT_YET = "check not built yet in this session (planned in DESIGN.md section 3); not claimed until its machinery exists"


def main():
    ids = [json.loads(l)["id"] for l in open(os.path.join(HERE, "properties.jsonl")) if l.strip()]
    checks = []
    na = []
    for pid in ids:
        c = CHECKS.get(pid)
        if pid in PENDING:
            na.append({"property_id": pid, "reason": PENDING[pid]})
            continue
        if c is None:
            na.append({"property_id": pid, "reason": NOT_YET})
            continue
        checks.append({
            "property_id": pid,
            "quick_cmd": "./check %s --tier quick" % pid,
            "thorough_cmd": "./check %s --tier thorough" % pid,
            "evidence_file": "/verif/evidence/%s.json" % pid,
            "replay_cmd_template": "./check %s --replay {path}" % pid,
            "engine": c["engine"],
            "level_claimed": {"category": "model_checking", "text": c["text"], "design_ref": c["design_ref"]},
            "level_note": c["note"],
            "technique": c["technique"],
        })
    m = {
        "version": 1,
        "setup_cmd": "chmod +x /verif/check && /venv/bin/python -c 'import sys; sys.path.insert(0, \"/verif\"); import mc.cli'",
        "hooks": {
            "guard": "ALLFED_INTEGRATED_MODEL_VERIF",
            "enable": "no hooks are needed: every observation point is reached by wrapping public methods from the harness (DESIGN.md 1.7); the guard name is reserved and unused",
            "baseline_off_cmd": "cd /repo && /venv/bin/python -m pytest -ra -q -p no:cacheprovider --timeout=900 --continue-on-collection-errors",
            "source_commits": [],
            "add_only": True,
        },
        "engines": [
            {"name": "helpers", "path": "mc/props", "serves_properties": ["C18"],
             "kind_free_text": "explicit enumeration of inputs/operation sequences on the real Python code (hand-written explorer, /verif/mc)"},
            {"name": "herd", "path": "mc/herd.py", "serves_properties": ["C06", "C07"],
             "kind_free_text": "explicit-state exploration of animal_populations.main() under enumerated monthly environment answers"},
            {"name": "supplies", "path": "mc/supplies.py", "serves_properties": ["C08", "C09"],
             "kind_free_text": "enumeration of configurations through compute_parameters_first_round and of generated constants through the supply classes, reference model in lock-step"},
            {"name": "units", "path": "mc/props/c10.py", "serves_properties": ["C10"], "kind_free_text": "exhaustive product over unit triples on Food.in_units"},
            {"name": "food-ops", "path": "mc/props/c11.py", "serves_properties": ["C11"], "kind_free_text": "BFS over operation sequences on real Food objects with exact state hashing and a reference value type"},
            {"name": "options", "path": "mc/props/c13.py", "serves_properties": ["C13"], "kind_free_text": "explicit-state search over the exactly-once flag sets of a real Scenarios object; dispatcher deviations against a reference table"},
            {"name": "pipeline", "path": "mc/pipeline.py", "serves_properties": ["C01", "C02", "C03", "C04", "C05", "C16", "C18"],
             "kind_free_text": "bounded exhaustive enumeration of (country, option dictionary) through the real three-round run with all monitors attached; results cached per source tree in /verif/.cache"},
            {"name": "lp-metamorphic", "path": "mc/props/c12.py", "serves_properties": ["C12"], "kind_free_text": "menu-exhaustive perturbation of captured LP instances on the real optimizer"},
            {"name": "histories", "path": "mc/props/c14.py", "serves_properties": ["C14"], "kind_free_text": "exhaustive run histories up to depth d, one fresh process per history"},
            {"name": "aggregate", "path": "mc/props/c15.py", "serves_properties": ["C15"], "kind_free_text": "product of selection patterns through run_model_no_trade with a stand-in at the per-country seam"},
            {"name": "imports", "path": "mc/props/c17.py", "serves_properties": ["C17"], "kind_free_text": "re-execution of the import pipeline in a scratch copy + cell rules + helper product"},
        ],
        "checks": checks,
        "not_applicable": na,
        "notes": "All checks: cwd=/verif, interpreter /venv/bin/python, import src from /repo's working tree (editable install), scratch dirs created at run time and removed on exit. known_findings.json lists recorded/fixed defects.",
    }
    with open(os.path.join(HERE, "MANIFEST.json"), "w") as f:
        json.dump(m, f, indent=1)
        f.write("\n")


if __name__ == "__main__":
    main()
