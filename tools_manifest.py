#!/usr/bin/env python3
"""Regenerates MANIFEST.json from the table below (keeps it valid at all times)."""
import json
import os

HERE = os.path.dirname(os.path.abspath(__file__))
TRUST = ("Python/numpy semantics; the harness's own oracle code in /verif/mc; the value menus and bounds "
         "stated in the evidence file (nothing is claimed outside them)")

CHECKS = {
    "C18": dict(
        engine="helpers+pipeline",
        technique="exhaustive enumeration (full products over small value menus) of the four hand-off helpers on the real code, statement-level invariants as oracle",
        text="Bounded exhaustive: every array of length<=5 over 6 values (fill), every pair of meat series of length<=3/4 over 4 values, every 6-tuple over 5/6 values (bump), every month pattern with <=3/4 of 9 foods non-zero x 6 companion months x 4 thresholds (minimum human needs), each checked against the sentence of the property it implements. Right level because the helpers are pure functions whose defects show on tiny inputs.",
        design_ref="3/C18",
        note=TRUST + "; stand-in round-1 result object exposes exactly the attributes the helper reads"),
}

NOT_YET = "check not built yet in this session (planned in DESIGN.md section 3); not claimed until its machinery exists"


def main():
    ids = [json.loads(l)["id"] for l in open(os.path.join(HERE, "properties.jsonl")) if l.strip()]
    checks = []
    na = []
    for pid in ids:
        c = CHECKS.get(pid)
        if c is None:
            na.append({"property_id": pid, "reason": NOT_YET})
            continue
        checks.append({
            "property_id": pid,
            "quick_cmd": "./check %s --tier quick" % pid,
            "thorough_cmd": "./check %s --tier thorough" % pid,
            "evidence_file": "/verif/evidence/%s.json" % pid,
            "replay_cmd_template": "./check %s --replay {path}" % pid,
            "engine": c["engine"],
            "level_claimed": {"category": "model_checking", "text": c["text"], "design_ref": c["design_ref"]},
            "level_note": c["note"],
            "technique": c["technique"],
        })
    m = {
        "version": 1,
        "setup_cmd": "chmod +x /verif/check && /venv/bin/python -c 'import sys; sys.path.insert(0, \"/verif\"); import mc.cli'",
        "hooks": {
            "guard": "ALLFED_INTEGRATED_MODEL_VERIF",
            "enable": "no hooks are needed: every observation point is reached by wrapping public methods from the harness (DESIGN.md 1.7); the guard name is reserved and unused",
            "baseline_off_cmd": "cd /repo && /venv/bin/python -m pytest -ra -q -p no:cacheprovider --timeout=900 --continue-on-collection-errors",
            "source_commits": [],
            "add_only": True,
        },
        "engines": [
            {"name": "helpers", "path": "mc/props", "serves_properties": ["C18"],
             "kind_free_text": "explicit enumeration of inputs/operation sequences on the real Python code (hand-written explorer, /verif/mc)"},
        ],
        "checks": checks,
        "not_applicable": na,
        "notes": "All checks: cwd=/verif, interpreter /venv/bin/python, import src from /repo's working tree (editable install), scratch dirs created at run time and removed on exit. known_findings.json lists recorded/fixed defects.",
    }
    with open(os.path.join(HERE, "MANIFEST.json"), "w") as f:
        json.dump(m, f, indent=1)
        f.write("\n")


if __name__ == "__main__":
    main()
