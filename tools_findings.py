#!/usr/bin/env python3
"""Re-derives the grid-derived OPEN findings of C03 and C16 (explicit (country, preset, deviation) lists) from the newest
THOROUGH pipeline exploration stored in .cache/, and rewrites those entries of known_findings.json.  Run by hand after the
engine or the repository changed and the thorough grid was re-run; the result is reviewed and committed by hand (the checks
themselves never write the file).  Entries of other properties and all `fixed` entries are left untouched.

   tools_findings.py show      what the newest thorough cache contains for C03 / C16 (nothing is written)
   tools_findings.py write     rewrite the C03 / C16 open entries"""
import glob
import json
import os
import sys
from collections import Counter, defaultdict

HERE = os.path.dirname(os.path.abspath(__file__))
KF = os.path.join(HERE, "known_findings.json")


def newest_thorough():
    files = sorted(glob.glob(os.path.join(HERE, ".cache", "pipeline_*.json")), key=os.path.getmtime, reverse=True)
    for f in files:
        if os.path.getsize(f) < 5e6:
            continue
        d = json.load(open(f))
        if d["n_jobs"] > 20000:
            return f, d
    raise SystemExit("no thorough pipeline exploration in .cache/")


C03_GROUPS = [
    ("worst_month_cap", ["no_feed_while_below_threshold"],
     lambda v: v["key"].get("r1_below_T") and v["key"].get("final_not_below_r1"),
     "src/optimizer/parameters.py Parameters.calculate_human_consumption_for_min_needs (hand-off to the feed-maximising round)",
     "people are only guaranteed min(no-feed result, threshold) in EVERY month, i.e. the worst-month level; in better months the surplus is given to animal "
     "feed/biofuel although the final percent fed stays below the threshold (e.g. MNG, manuscript worst case: final 0.0003 % < 10 %, month 0 gives 6.4 % of a "
     "month's need to feed). The maintainers' own validator for this relation only prints a banner and is never called. Not a small repair."),
    ("final_below_no_feed_round", ["final_not_below_no_feed_round", "no_feed_while_below_threshold"],
     lambda v: True,
     "three-round controller (src/scenarios/run_scenario.py run_round_2/run_round_3, src/optimizer/parameters.py compute_parameters_third_round)",
     "final percent fed ends more than 0.05 points BELOW the no-feed round while it is under the threshold (the feed charged in round 3 costs the worst month more "
     "than the extra meat returns), e.g. MUS worst case 1.213 vs 1.307 (the maintainers' banner tolerates 1 point, so nothing is printed)"),
    ("threshold_lost", ["threshold_kept_when_reachable"],
     lambda v: True,
     "same controller",
     "the no-feed round reaches the threshold but the final result falls below it (e.g. with cull=dont_eat_culled: feed is charged for herds whose meat people are not allowed to eat)"),
]


def derive(d):
    out = []
    # ---- C03
    vs = d["violations"].get("C03", [])
    taken = set()
    for name, clauses, pred, where, what in C03_GROUPS:
        cases = sorted({v["key"]["case"] for i, v in enumerate(vs) if i not in taken and v["clause"] in clauses and pred(v)})
        for i, v in enumerate(vs):
            if v["clause"] in clauses and pred(v) and v["key"]["case"] in cases:
                taken.add(i)
        if cases:
            by_preset = Counter(c.split("|")[1] for c in cases)
            out.append({"status": "open", "property": "C03", "clause": clauses, "group": name, "where": where,
                        "what": "%s; %d (country, preset, deviation) cases of the thorough grid (%s)" % (what, len(cases), ", ".join("%s: %d" % kv for kv in sorted(by_preset.items()))),
                        "match": {"case": cases}})
    rest = [v for i, v in enumerate(vs) if i not in taken]
    # ---- C16
    vs16 = d["violations"].get("C16", [])
    groups = defaultdict(list)
    for v in vs16:
        groups[(v["key"]["iso3"], v["clause"])].append(v)
    for (iso, clause), lst in sorted(groups.items()):
        cases = sorted({v["key"]["case"] for v in lst})
        detail = Counter(v["detail"].split(":")[-1].strip()[:120] for v in lst).most_common(1)[0][0]
        out.append({"status": "open", "property": "C16", "clause": [clause],
                    "where": "src/optimizer/optimizer.py run_optimizations_on_constraints and the later tie-break solves" if clause == "run_completes" else "validation banners of the run",
                    "what": "%s: %s under %d option sets of the grid (%s): %s" % (iso, clause, len(cases), detail, "; ".join(c.split("|", 1)[1] for c in cases[:6]) + (" ..." if len(cases) > 6 else "")),
                    "match": {"iso3": iso, "case": cases}})
    return out, rest


def main():
    f, d = newest_thorough()
    print("cache", os.path.basename(f), "jobs", d["n_jobs"])
    for p in ("C03", "C16"):
        print(p, dict(Counter(v["clause"] for v in d["violations"].get(p, []))))
    entries, rest = derive(d)
    for e in entries:
        print(e["property"], e.get("group", e["match"].get("iso3")), e["clause"], len(e["match"]["case"]))
    if rest:
        print("C03 violations in NO group (would be reported as violations):", Counter(v["clause"] for v in rest))
        for v in rest[:10]:
            print("   ", v["clause"], v["key"]["case"], v["detail"][:160])
    if sys.argv[1:] == ["write"]:
        k = json.load(open(KF))
        keep = [e for e in k["findings"] if not (e.get("status") == "open" and e.get("property") in ("C03", "C16"))]
        k["findings"] = keep + entries
        json.dump(k, open(KF, "w"), indent=1)
        print("written:", len(entries), "entries; total", len(k["findings"]))


if __name__ == "__main__":
    main()
